#!/bin/bash
# usage: tools/try_patch.sh <patch.diff> <prop> [<prop>...]   -- applies the patch to /repo, runs quick checks, always reverts
patch="$1"; shift
cd /verif
git -C /repo diff --quiet || { echo "/repo has uncommitted changes; aborting"; exit 3; }
git -C /repo apply "$patch" || { echo "patch does not apply"; exit 3; }
trap 'git -C /repo checkout -- . ' EXIT
for p in "$@"; do
  start=$(date +%s)
  VERIF_SEED=${VERIF_SEED:-1} timeout 1800 python3-vt run.py "$p" --tier ${TIER:-quick} > /tmp/try_$p.log 2>&1
  rc=$?
  echo "== $p rc=$rc ($(( $(date +%s) - start ))s)  $(grep -c VIOLATION /tmp/try_$p.log) violation line(s)"
  grep -E "failure:|BROKEN|KNOWN-FINDING" /tmp/try_$p.log | cut -c1-260 | head -4
done
