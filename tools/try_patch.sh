#!/bin/bash
# usage: tools/try_patch.sh <patch.diff> <prop> [<prop>...]
# Applies the patch to a scratch worktree of /repo HEAD (never to /repo itself), runs the quick checks against it (AU_REPO), removes the worktree.
patch="$1"; shift
cd /verif
wt=/tmp/au_try_$$
git -C /repo worktree add -q --detach $wt HEAD || exit 3
trap 'git -C /repo worktree remove --force '$wt' >/dev/null 2>&1' EXIT
git -C $wt apply "$patch" || { echo "patch does not apply"; exit 3; }
for p in "$@"; do
  start=$(date +%s)
  AU_REPO=$wt AUV_EVIDENCE_DIR=/tmp/au_try_evidence VERIF_SEED=${VERIF_SEED:-1} timeout 3600 python3-vt run.py "$p" --tier ${TIER:-quick} > /tmp/try_$p.log 2>&1
  rc=$?
  echo "== $p rc=$rc ($(( $(date +%s) - start ))s)  $(grep -c VIOLATION /tmp/try_$p.log) violation line(s)"
  grep -E "failure:|BROKEN|KNOWN-FINDING" /tmp/try_$p.log | cut -c1-260 | head -4
done
