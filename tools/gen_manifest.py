#!/usr/bin/env python3
"""Regenerates /verif/MANIFEST.json from the table below (run from /verif)."""
import json
import os

VERIF = os.path.dirname(os.path.dirname(os.path.abspath(__file__)))
props = [json.loads(l) for l in open(os.path.join(VERIF, "properties.jsonl"))]

# id -> (engine, technique, level text, level note, design ref)
CHECKS = {
    "C01": ("pbt-programs", "Hypothesis-generated ordered unit pairs with model-different dimensions (near misses, independent trees, special pairs, same-base exponent arithmetic, integer powers of scaled fractional-dimension units) x ~70 operations: negative compile probe (must fail) paired with a positive twin (must compile), plus positive trait TUs that must compile and answer no (Quantity and QuantityPoint, both directions, non-zero origins)",
            "Exploration: fixed grid (every operation x 5 unit pairs) plus random pairs, rotating over the six compiler/standard configurations (thorough: all six).",
            "trusts the model's dimension vectors; a probe only counts when its twin compiled in the same configuration", "4/C01"),
    "C02": ("pbt-programs", "Hypothesis-generated unit expression trees (incl. non-reduced exponents and integer powers of scaled roots) in five spellings, compiled as static_assert batches: is_same of DimT/MagT against model-spelled canonical types, equivalence/ratio predicates on pairs built equal-by-another-route or as near misses, type identity of permuted products and of every pure product/power tree (incl. partially cancelling exponents such as pow<2>(root<4>(x))) with the canonical alias UnitProductT<UnitPowerT<U,n,d>...> spelled from net exact exponents; type identity of every order/grouping (and cancelling quotients) of anonymous scalings of one base with a third scaled unit",
            "Exploration: a fixed grid (every library unit x 5 spellings, every derived unit against its physical definition, every prefix) plus thousands of random trees/pairs per run, each judged individually under rotating (thorough: all six) compiler configurations. No completeness over all expression trees.",
            "trusts the independently written unit table (auverif/model.py), Python Fractions, and the compilers' static_assert verdicts", "4/C02"),
    "C03": ("pbt-values", "generated instances (grid + Hypothesis) x exhaustive 8/16-bit loops + boundary sets + rapidcheck draws vs exact 128-bit oracle under ASan/UBSan",
            "Exploration: every 8/16-bit value for every generated factor, +-3 neighbourhoods of all model thresholds and rapidcheck draws for 32/64-bit reps (all 2^32 for a rotating subset in the thorough tier); a cleared conversion must equal the exact x*N/D and run sanitizer-clean. Not a proof for 64-bit reps.",
            "trusts the __int128 oracle, g++ sanitizers, and the model of when a conversion compiles", "4/C03"),
    "C04": ("pbt-values", "same generated program as C03: both directions of each checker vs exact rational predicates; float reps with a stated exclusion band",
            "Exploration: exact agreement (iff) of will_conversion_overflow/truncate/is_conversion_lossy with rational-arithmetic predicates on all 8/16-bit values, boundary-complete sets and random draws for wider reps; floating reps judged outside a 16-epsilon band. The property's z3 clause is not attempted (other technique).",
            "trusts the __int128 oracle; NaN/inf unconstrained; band width 16 eps", "4/C04"),
    "C12": ("pbt-values", "exhaustive comparison with an independent sieve below 2^26/2^30, adversarial 64-bit input families selected by independent code vs deterministic Miller-Rabin, rapidcheck triples for the modular helpers vs unsigned __int128, Hypothesis-generated static_asserts on mag<N>() vs sympy factorisations; coverage-guided libFuzzer target with the oracle inside (both tiers: 16 x 150k executions quick, 16 x 20M thorough)",
            "Exploration: exhaustive for all n below the bound, structured adversarial sets (pseudoprime families, Carmichael numbers, squares, semiprimes near 2^16/2^31/2^32, neighbours of 2^k, k*2^t+-1 for every t) and random 64-bit operands beyond it. Inputs confined to a tiny region that is not one of these structures (e.g. a spurious wrap in is_perfect_square) are out of reach.",
            "trusts the deterministic 7-base Miller-Rabin oracle, unsigned __int128 arithmetic and sympy.factorint", "4/C12"),
    "C13": ("pbt-values", "generated programs: memcmp round trip over all 8/16-bit values and float bit patterns, all 8x8-bit operand pairs and rapidcheck/special grids for wider reps, result type pinned by static_assert against the raw operator, accepted by all six configurations and built + run as a complete program at -O0 per configuration; layout facts as static_assert grids over units x reps (Hypothesis-generated compound units)",
            "Exploration: exhaustive where the domain is small (8-bit operand pairs, 16-bit values, 2^32 float patterns in the thorough tier), structured specials + random draws otherwise; one known finding (F5) is excluded by construction and re-checked by a pinned reproducer.",
            "trusts the raw operators compiled by the same compiler as oracle; NaN results compared as both-NaN", "4/C13"),
    "C08": ("pbt-values", "generated (unit pair, rep pair) instances from the gcd-unit model; exhaustive 8-bit x 8/16-bit operand pairs, enumerated edge grids and rapidcheck draws (equal / off-by-one / overflow-edge classes) vs 128-bit exact ordering, sum, difference, remainder; <=> under C++20; float instances with 4/8-ulp bands; negative probes for forms the policy must refuse",
            "Exploration: exact agreement on billions of operand pairs per run for the sampled instances, under ASan+UBSan; instances restricted to those the conversion policy accepts (model-predicted, and that prediction is itself checked by compiling).",
            "trusts 128-bit integer oracle and long double for the floating band; precondition: scaled operands fit the common rep", "4/C08"),
    "C05": ("pbt-values", "generated (source rep, target rep, factor) instances over all 121 rep pairs; exhaustive 8/16-bit sources, stage-threshold neighbourhoods, nextafter neighbours of every target limit, NaN/inf/denormals/raw bit patterns via rapidcheck; exact staged pipeline oracle (128-bit) for integers, exact judgement of the library's scaled floating value for floating sources; UBSan float-cast-overflow; plus a coverage-guided libFuzzer campaign over raw bit patterns of floating sources with the oracle inside the target",
            "Exploration of soundness: cleared => every stage in range and result exact / value-preserving; uncastable => reported lossy; integral-source overflow => some stage really out of range. One known finding (F9) excluded by construction with a pinned reproducer.",
            "trusts 128-bit/long double oracle; truncation answers only in the soundness direction; checkers' own UB on overflowing inputs (O1) is not asserted", "4/C05"),
    "C06": ("pbt-programs", "Hypothesis-generated (R1,R2,ratio) cases around every 2147-threshold compiled as static_assert blocks that must compile whatever the answer (totality) and answer as the model predicts (is_convertible/constructible/assignable, overload-resolution probe, common_type detection, QuantityPoint pairs); generated UBSan programs convert all |x|<=2147 for permitted integral cases; negative probes for unit-only as/in",
            "Exploration: enumerated grid of 10x10 reps x threshold-straddling factors plus random smooth ratios, every case judged individually under two configurations per run (rotating).",
            "trusts the documented predicate as model (reps.implicit_ok) and 128-bit products", "4/C06"),
    "C07": ("pbt-programs", "Hypothesis-generated lists of same-dimension units (library, prefixed, anonymous/named scalings up to 2^40, pi powers, coinciding scalings of different bases, prefix-sharing chains P, P*q^a/r, P*t/p^b) compiled as static_assert blocks: permutation/repetition identity, gcd magnitude spelled from the model, integer ratios with model values, input-already-common rule, nesting, std::common_type of quantities",
            "Exploration: enumerated grid (all pairs/triples inside each library family, named-vs-anonymous equivalents) plus random lists, every permutation of each; no completeness over all lists.",
            "trusts the model gcd over the independently tabulated magnitudes", "4/C07"),
    "C10": ("pbt-programs", "Hypothesis-generated pairs/triples of point units (library temperature units, prefixed forms, generated scale+origin units); permutation/repetition identity by static_assert; a validity predicate evaluated on constexpr conversions of 0,1,7 (long long, long double, unsigned) and cross-checked against exact model fractions",
            "Exploration with a validity oracle (any common point unit satisfying the statement is accepted), enumerated library grid plus random generated units.",
            "generated units use int64_t origins; parameters reduced until intermediates fit 58 bits", "4/C10"),
    "C09": ("pbt-values", "generated (point unit pair, rep pair) instances incl. units with rational scale and origin; enumerated +-2^15 windows around 0 and around each origin plus rapidcheck draws vs the exact rational affine map (128-bit; floating tolerance = calculation-rep ulps of the intermediates + target-rep ulps of the result, incl. narrowing double->float instances with origins beyond 2^24), gated by representability with a two-bit margin; comparisons, point differences and shifts vs exact positions; 17 negative compile probes with positive twins",
            "Exploration: exact equality on millions of values per run for integral reps (explicit ulp tolerances for floating reps), enumerated negative probes for every operation without affine meaning.",
            "assertions only where result and model intermediates are representable (the statement's proviso); comparison checks only on instances the policy model admits", "4/C09"),
    "C11": ("pbt-programs", "Hypothesis-generated magnitudes (primes up to 2^64-59, exponents straddling every integer and floating limit, roots, pi) built through the library's operators; static_assert of representable_in/get_value against exact integers and 30-digit mpmath bounds, canonical-type identity, classification and split functions as spelled types, equality via two routes; negative compile probes (with twins) for get_value on non-representable magnitudes",
            "Exploration: enumerated limit grid for all 11 types, magnitudes CONSTRUCTED next to each limit of T (2^a * prod p^e with mixed signs; odd part * 2^k for integers) plus random magnitudes; the bands next to the floating limits and magnitudes whose partial products leave long double's range are only required to be refused cleanly or be correct.",
            "trusts Fractions/mpmath and compile-time evaluation by the compilers", "4/C11"),
    "C19": ("pbt-values", "generated (unit, rep) instances; all 8/16-bit values, special grids and rapidcheck draws (NaN/inf/-0/denormals/raw bits) comparing every ZERO expression with the raw operator against 0 (value and result type); conversion of ZERO to all reps, to all 18 fundamental arithmetic types (trait + constexpr value, every configuration) and chrono durations; negative compile probes with twins for every place a quantity point is required, and trait / decltype-detection blocks (is_constructible, is_convertible, is_assignable, ==, <) that must answer no for points and yes for the Quantity twins",
            "Exploration: exhaustive for small reps, specials + random otherwise, across generated compound units; enumerated negative probes.",
            "raw operators compiled by the same compiler are the oracle; NaN results compared as both-NaN", "4/C19"),
    "C14": ("pbt-values", "Hypothesis-generated unit pairs biased to exact and dimension-only cancellation and to powers of one base (B^a with B^b) x rep pairs: result type pinned by static_assert (raw number iff the model says the units cancel, else Quantity with model-spelled Dimension/Magnitude and raw rep), values bit-equal to raw operators over all 8x8-bit pairs, special grids and rapidcheck draws; int_pow/sqrt/cbrt/inverse checks; negative probes with twins for the integer-division and as_raw_number guards",
            "Exploration: exact for sampled instances under ASan+UBSan; guards probed on an enumerated list of unit/rep combinations.",
            "collapse rule asserted for * and / between quantities (documented scope); int_pow result rep not asserted", "4/C14"),
    "C15": ("pbt-values", "generated instances per function family: rounding (exhaustive +-2^16 integers, doubles placed k ulp around half-integers/integers of the TARGET unit) against the exact long-double value with a 4-ulp band, explicit integral and floating OutputRep forms against the implicit form; inversion (n=1..1000 exhaustive + round trip + random) against trunc(K/x); trig against long double std:: of exact radians with a stated tolerance; hypot/fmod/remainder/min/max/clamp/abs/isnan/copysign against std:: on common-unit values incl. NaN/inf/signed zeros; negative probes for integral inversions with K < 10^6",
            "Exploration with explicit tolerances for floating point; exhaustive windows for integral reps.",
            "long double oracle; bands and documented exceptions listed in evidence.assumptions", "4/C15"),
    "C16": ("pbt-programs", "Hypothesis-generated (constant, target unit, type) cases: library constants modelled from the SI exact values and make_constant of generated units with integer/rational/huge-prime/pi magnitudes; static_assert of can_store_value_in and of the converted values against exact ratios / 30-digit bounds, negative probes (with twins) for every conversion form when the ratio is not representable, algebra cases pinning stored number and spelled result unit",
            "Exploration: grid over the 9 library constants x types plus random generated constants, scale factors straddling each type's limits and ratios constructed next to the limits of T (C11's near-limit construction).",
            "same floating bands as C11; model of the constants independent of the headers", "4/C16"),
    "C17": ("pbt-values", "generated (Rep1, Period1, Rep2, Period2) instances (library typedef periods incl. the C++20 calendar typedefs days/weeks/months/years, awkward ratios, random ratios): round trips bit-exact with rep/unit/period pinned by static_assert; mixed duration/quantity comparisons, sums and differences in both operand orders against chrono's own results (differential oracle) where the model says chrono does not overflow, built as C++20 and syntax-checked elsewhere; acceptance traits against the C06 model",
            "Exploration with chrono itself as the differential oracle; special grids + rapidcheck draws incl. near-equal counts across periods.",
            "mixed operations compared only on instances admitted by Au's conversion policy (model-predicted, compile-checked)", "4/C17"),
    "C18": ("pbt-programs", "Hypothesis-generated unit expressions (labelled/unlabelled named units, huge/rational/irrational scale factors, common_unit / common_point_unit of 2-3 same-dimension units) whose printed label is parsed by an independent parser of the documented grammar and evaluated back to (dimension, magnitude): denotation round trip against the model; sizeof/strlen, cross-compiler determinism, exact strings for simple shapes, IToA/UIToA digits, exhaustive streaming of all 8-bit reps incl. plain char; everything under ASan+UBSan",
            "Exploration with a denotational oracle: any label that parses under the documented grammar and denotes the right unit is accepted. One known finding (F3) excluded by construction with a pinned reproducer.",
            "token table (unit symbols, prefix symbols) written in the model; cases whose leaves share a label text are skipped", "4/C18"),
    "C20": ("pbt-programs", "Hypothesis-generated subsets of unit/constant headers x io flag: single-file header generated by tools/bin/make-single-file from the working tree, built with no Au include path / included twice / in two linked TUs; a generated API-surface program compared between single-file and multi-header builds and across all six compiler/standard configurations (differential oracle); every header compiled on its own, fwd+full orders, fwd-declaration link test",
            "Exploration with differential oracles (packaging, standard, compiler); enumerated header sweep. Decided for g++ 12 / clang++ 14 with libstdc++ only. One known finding (F5) excluded by construction with a pinned reproducer.",
            "only IEEE-exact operations and integers are printed for cross-compiler comparison", "4/C20"),
}
ENGINES = [
    {"name": "pbt-programs", "path": "auverif/hyp.py", "kind_free_text": "Hypothesis-generated translation units judged by compiler verdict / static_assert / program output against an independent Python model",
     "serves_properties": []},
    {"name": "pbt-values", "path": "auverif/valrun.py", "kind_free_text": "generated C++ programs instantiating harness/*.hh checks: exhaustive loops for small domains, rapidcheck draws (type-erased driver harness/rcdriver.cc) for wide ones, ASan+UBSan non-recoverable",
     "serves_properties": []},
    {"name": "fuzz", "path": "fuzz/", "kind_free_text": "libFuzzer targets with the semantic oracle inside the target (clang++ -fsanitize=fuzzer,address,undefined; both tiers, deeper in thorough)", "serves_properties": []},
]
for pid, c in CHECKS.items():
    for e in ENGINES:
        if e["name"] == c[0]:
            e["serves_properties"].append(pid)

m = {
    "version": 1,
    "setup_cmd": "python3-vt run.py --setup",
    "hooks": {"guard": "AU_VERIF_HOOKS",
              "enable": "no source hooks are needed: every observation point is public API, a detail:: template reachable from user code, or a compiler verdict; checks compile generated translation units with -I/repo/au/code",
              "baseline_off_cmd": "cmake --build /repo/_build -j16 && ctest --test-dir /repo/_build -j8 --timeout 900",
              "source_commits": [], "add_only": True},
    "engines": ENGINES,
    "checks": [],
    "not_applicable": [],
    "notes": "All checks: cwd=/verif, python3-vt run.py <id> --tier quick|thorough; VERIF_SEED honoured; known findings in known_findings.txt.",
}
for p in props:
    pid = p["id"]
    if pid in CHECKS:
        eng, tech, text, note, ref = CHECKS[pid]
        m["checks"].append({
            "property_id": pid,
            "quick_cmd": "python3-vt run.py %s --tier quick" % pid,
            "thorough_cmd": "python3-vt run.py %s --tier thorough" % pid,
            "evidence_file": "/verif/evidence/%s.json" % pid,
            "replay_cmd_template": "python3-vt run.py %s --replay {path}" % pid,
            "engine": eng,
            "level_claimed": {"category": "exploration", "text": text, "design_ref": "DESIGN.md section " + ref},
            "level_note": note,
            "technique": tech,
        })
    else:
        m["not_applicable"].append({"property_id": pid, "reason": "not claimed"})
json.dump(m, open(os.path.join(VERIF, "MANIFEST.json"), "w"), indent=1)
try:
    import jsonschema
    jsonschema.validate(m, json.load(open("/root/.vp/MANIFEST.schema.json")))
    print("MANIFEST valid:", len(m["checks"]), "checks,", len(m["not_applicable"]), "not claimed")
except ImportError:
    print("written (jsonschema not available)")
