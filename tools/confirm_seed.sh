#!/bin/bash
# usage: tools/confirm_seed.sh <seed-name> <worktree> <property>
# Re-confirms an independently written breaking change in its scratch worktree (suite green with change, demo fails with
# change, demo passes without), then keeps patch + demo + notes under /verif/seeded/<seed-name>/ and removes the worktree.
name="$1"; wt="$2"; prop="$3"
set -u
cd "$wt" || exit 2
git diff -- au > _scratch/patch.confirm.diff
[ -s _scratch/patch.confirm.diff ] || { echo "no change in worktree"; exit 2; }
cmake --build _build -j16 2>&1 | tail -1
suite=$(ctest --test-dir _build -j16 --timeout 900 2>&1 | grep -E "tests passed|tests failed" | tail -1)
echo "suite with change: $suite"
rundemo() {
  if [ -f _scratch/demo.sh ]; then (cd _scratch && bash ./demo.sh >/dev/null 2>&1); echo $?;
  else g++ -std=c++14 -I$wt/au/code _scratch/demo.cc -o _scratch/demo.bin 2>_scratch/demo.err; rc=$?; if [ $rc -ne 0 ]; then echo "compile-fail"; else (timeout 600 _scratch/demo.bin >/dev/null 2>&1; echo $?); fi; fi
}
with=$(rundemo)
git apply -R _scratch/patch.confirm.diff || { echo "cannot reverse patch"; exit 2; }
without=$(rundemo)
git apply _scratch/patch.confirm.diff || { echo "cannot re-apply patch"; exit 2; }
echo "demo with change: $with ; without: $without"
ok=0
case "$suite" in *"100% tests passed"*) ;; *) ok=1;; esac
[ "$with" != "0" ] || ok=1
[ "$without" = "0" ] || ok=1
if [ $ok -ne 0 ]; then echo "NOT CONFIRMED"; exit 1; fi
d=/verif/seeded/$name; mkdir -p $d
cp _scratch/patch.confirm.diff $d/patch.diff
for f in _scratch/*.cc _scratch/*.sh _scratch/*.md; do [ -f $f ] && cp $f $d/; done
cat > $d/meta.json <<EOM
{"property": "$prop", "seed": "$name",
 "confirmed": {"suite_with_change": "$suite", "demo_exit_with_change": "$with", "demo_exit_without_change": "$without",
               "how": "tools/confirm_seed.sh in a scratch worktree of /repo HEAD $(git -C /repo rev-parse --short HEAD): cmake --build + ctest with the change; demo built with g++ -std=c++14 (or demo.sh) with the change and after git apply -R"}}
EOM
cd /; git -C /repo worktree remove --force "$wt"
echo "CONFIRMED -> $d"
