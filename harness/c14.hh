// C14: products, quotients and powers combine values raw-wise and units algebraically.  After "au/au.hh"; C++17.
#pragma once
#include "auv.hh"

namespace auv {

template <class A> inline bool beq14(A a, A b) { return memcmp(&a, &b, sizeof(A) > 10 ? 10 : sizeof(A)) == 0 || (a != a && b != b); }

template <class T, class = void> struct IsQuantity : std::false_type {};
template <class U, class R> struct IsQuantity<au::Quantity<U, R>> : std::true_type {};

template <class T> auto raw_of(T v, std::false_type) { return v; }
template <class T> auto raw_of(T v, std::true_type) { return v.in(typename T::Unit{}); }
template <class T> auto raw_of(T v) { return raw_of(v, IsQuantity<T>{}); }

// ExpDim/ExpMag: model-spelled canonical types of the product (M) and quotient (D) units
template <class R1, class R2, class U1, class U2, class MDim, class MMag, class DDim, class DMag, bool MUL_UNITLESS, bool DIV_UNITLESS, bool EQUIV>
struct Prod14 {
    const char *id; bool canary; Stats st; Distinct dn; bool failed = false; uint64_t n_pairs = 0;
    Prod14(const char *i, bool c) : id(i), canary(c), dn(19) {}
    typedef decltype(std::declval<R1>() * std::declval<R2>()) PM;
    static constexpr bool BOTH_INT = std::is_integral<R1>::value && std::is_integral<R2>::value;

    void fail(R1 x, R2 y, const std::string &m) { if (!failed) report_fail(id, std::string("{\"R1\":\"") + TypeName<R1>::name() + "\",\"R2\":\"" + TypeName<R2>::name() + "\",\"x\":\"" + val_s(x) + "\",\"y\":\"" + val_s(y) + "\"}", m); failed = true; st.fails++; }
    static bool mul_ub(R1 x, R2 y) { if (!std::is_integral<PM>::value || !std::is_signed<PM>::value) return false; i128 r = i128(x) * i128(y); return r < i128(std::numeric_limits<PM>::lowest()) || r > i128(std::numeric_limits<PM>::max()); }
    static bool div_ub(R1 x, R2 y) { if (!std::is_integral<PM>::value) return false; return y == 0 || (std::is_signed<PM>::value && i128(x) == i128(std::numeric_limits<PM>::lowest()) && i128(y) == -1); }

    template <class Res, class ExpDim, class ExpMag, bool UNITLESS, class Raw>
    void judge_type(Res, Raw) {
        if constexpr (UNITLESS) {
            static_assert(std::is_same<Res, Raw>::value, "units cancel to the unitless unit: result must collapse to the raw number type");
        } else {
            static_assert(IsQuantity<Res>::value, "units do not cancel: result must be a Quantity");
            static_assert(std::is_same<typename Res::Rep, Raw>::value, "result rep must be the raw operator's type");
            static_assert(std::is_same<au::detail::DimT<typename Res::Unit>, ExpDim>::value, "result unit dimension");
            static_assert(std::is_same<au::detail::MagT<typename Res::Unit>, ExpMag>::value, "result unit magnitude");
        }
    }
    void check(R1 x, R2 y) {
        g_crumb.inst = id; snprintf(g_crumb.what, sizeof g_crumb.what, "x=%s y=%s", val_s(x).c_str(), val_s(y).c_str());
        auto a = au::make_quantity<U1>(x); auto b = au::make_quantity<U2>(y); ++n_pairs;
        if (!mul_ub(x, y)) {
            auto r = a * b; auto raw = x * y; st.evals++;
            judge_type<decltype(r), MDim, MMag, MUL_UNITLESS>(r, raw);
            auto rv = raw_of(r); if (canary) rv = rv + 1;
            if (!beq14(rv, raw)) fail(x, y, "a * b value " + val_s(rv) + " raw " + val_s(raw));
        }
        if (!div_ub(x, y)) {
            auto raw = x / y; st.evals++;
            if constexpr (!BOTH_INT || EQUIV) {
                auto r = a / b;
                judge_type<decltype(r), DDim, DMag, DIV_UNITLESS>(r, raw);
                if (!beq14(raw_of(r), raw)) fail(x, y, "a / b value " + val_s(raw_of(r)) + " raw " + val_s(raw));
            }
            // the explicit wrapper is always accepted; for cancelling units either a raw number or a unitless Quantity is accepted
            auto r2 = a / au::unblock_int_div(b);
            if (!beq14(raw_of(r2), raw)) fail(x, y, "a / unblock_int_div(b) value " + val_s(raw_of(r2)) + " raw " + val_s(raw));
            if constexpr (IsQuantity<decltype(r2)>::value) {
                static_assert(std::is_same<au::detail::DimT<typename decltype(r2)::Unit>, DDim>::value && std::is_same<au::detail::MagT<typename decltype(r2)::Unit>, DMag>::value, "unblock_int_div quotient unit");
            }
        }
        if (!(x == 0 && y == 0)) { uint64_t kx = 0, ky = 0; memcpy(&kx, &x, sizeof(R1) < 8 ? sizeof(R1) : 8); memcpy(&ky, &y, sizeof(R2) < 8 ? sizeof(R2) : 8); dn.add(mix(kx) ^ mix(ky + 11)); }
    }
    template <class R> static R special(uint64_t i) {
        if (std::is_floating_point<R>::value) { const R sp[] = {R(0), R(-0.0), R(1), R(-1), R(0.5), R(3), std::numeric_limits<R>::infinity(), std::numeric_limits<R>::quiet_NaN(), std::numeric_limits<R>::max(), std::numeric_limits<R>::denorm_min(), R(-7.25), R(1e10)}; return sp[i % 12]; }
        const R sp[] = {R(0), R(1), R(2), R(-1), R(3), R(7), std::numeric_limits<R>::max(), std::numeric_limits<R>::lowest(), R(std::numeric_limits<R>::max() / 2), R(10), R(-3), R(100)}; return sp[i % 12];
    }
    template <class R> static R draw(uint64_t c, uint64_t raw) {
        switch (c % 3) { case 0: return special<R>(raw); case 1: { R v; unsigned char bb[sizeof(R)] = {0}; memcpy(bb, &raw, sizeof(R) < 8 ? sizeof(R) : 8); if (sizeof(R) > 8) { bb[7] |= 0x80; bb[8] = (unsigned char)(raw >> 3); bb[9] = (unsigned char)(0x3f + (raw & 1)); } memcpy(&v, bb, sizeof(R)); return v; } default: return R(int64_t(raw % 4001) - 2000); }
    }
    static bool prop(void *self, const uint64_t *d, size_t) { Prod14 *me = static_cast<Prod14 *>(self); uint64_t f = me->st.fails; me->check(draw<R1>(d[0], d[1]), draw<R2>(d[2], d[3])); return me->st.fails == f; }
    void run() {
        if (!g_args.want(id)) return;
        if (g_args.one) { check(parse_val<R1>(g_args.one_vals.at(0)), parse_val<R2>(g_args.one_vals.at(1))); printf("AUVONE %s\n", failed ? "fail" : "ok"); return; }
        bool ex = false;
        if (sizeof(R1) == 1 && sizeof(R2) == 1) { ex = true; for (int p = int(std::numeric_limits<R1>::lowest()); p <= int(std::numeric_limits<R1>::max()) && !failed; ++p) for (int q = int(std::numeric_limits<R2>::lowest()); q <= int(std::numeric_limits<R2>::max()) && !failed; ++q) check(R1(p), R2(q)); }
        else { for (uint64_t i = 0; i < 12 && !failed; ++i) for (uint64_t j = 0; j < 12 && !failed; ++j) check(special<R1>(i), special<R2>(j)); if (!failed) { uint64_t out[4]; rc_run(id, 4, &Prod14::prop, this, out); } }
        st.inst = id; st.exhaustive = ex; st.nontrivial = dn.n; char h[100]; snprintf(h, sizeof h, "\"pairs\":%" PRIu64 ",\"canary\":%s", n_pairs, canary ? "true" : "false"); st.hist = h;
        st.samples.push_back(std::string(TypeName<R1>::name()) + " x " + TypeName<R2>::name()); report(st);
    }
};

// powers and roots of a single quantity
template <class R, class U, class SqDim, class SqMag>
struct Pow14 {
    const char *id; Stats st; Distinct dn; bool failed = false;
    explicit Pow14(const char *i) : id(i), dn(18) {}
    void fail(R x, const std::string &m) { if (!failed) report_fail(id, std::string("{\"R\":\"") + TypeName<R>::name() + "\",\"x\":\"" + val_s(x) + "\",\"y\":\"0\"}", m); failed = true; st.fails++; }
    template <int N> void ipow(R x) {
        // exact power whenever it fits R (integral) ; 4 ulp for floating reps
        auto q = au::make_quantity<U>(x);
        if constexpr (std::is_integral<R>::value) {
            i128 e = 1; bool fits = true; const i128 lim = i128(1) << 64; for (int k = 0; k < N; ++k) { i128 ax = i128(x) < 0 ? -i128(x) : i128(x), ae = e < 0 ? -e : e; if (ae != 0 && ax > lim / ae) { fits = false; break; } e *= i128(x); if (e > i128(std::numeric_limits<R>::max()) || e < i128(std::numeric_limits<R>::lowest())) { fits = false; break; } }
            // intermediate squares must fit the promoted type as well (raw semantics): be conservative
            typedef decltype(std::declval<R>() * std::declval<R>()) P;
            (void)sizeof(P);
            if (!fits) return;
            auto r = au::int_pow<N>(q); st.evals++;
            static_assert(std::is_same<au::detail::DimT<typename decltype(r)::Unit>, au::detail::DimT<au::UnitPowerT<U, N>>>::value, "int_pow unit");
            if (i128(r.in(typename decltype(r)::Unit{})) != e) fail(x, "int_pow<" + std::to_string(N) + "> = " + val_s(r.in(typename decltype(r)::Unit{})) + " exact " + to_s(e));
        } else {
            auto r = au::int_pow<N>(q); auto rn = au::int_pow<-N>(q); st.evals += 2;
            long double e = 1; for (int k = 0; k < N; ++k) e *= (long double)x;
            long double got = (long double)r.in(typename decltype(r)::Unit{});
            if (std::isfinite(e) && std::fabs(e) < (long double)std::numeric_limits<R>::max() && std::fabs(e) > (long double)std::numeric_limits<R>::min() && std::fabs(got - e) > 4 * std::fabs(e) * (long double)std::numeric_limits<R>::epsilon()) fail(x, "int_pow<" + std::to_string(N) + "> off by more than 4 ulp");
            // negative power = raw reciprocal of the library's own positive power (x^-n is 1/(x^n) evaluated with the raw operators)
            { R pos = r.in(typename decltype(r)::Unit{}); R neg = rn.in(typename decltype(rn)::Unit{}); R expect = R(1) / pos;
              if (N >= 1 && !beq14(neg, expect)) fail(x, "int_pow<-" + std::to_string(N) + ">(q) = " + val_s(neg) + " is not the raw reciprocal 1/int_pow<" + std::to_string(N) + ">(q) = " + val_s(expect)); }
            long double en = 1 / e, gotn = (long double)rn.in(typename decltype(rn)::Unit{});
            if (x != 0 && std::isfinite(en) && std::fabs(en) < (long double)std::numeric_limits<R>::max() && std::fabs(en) > (long double)std::numeric_limits<R>::min() && std::isfinite(e) && std::fabs(e) < (long double)std::numeric_limits<R>::max() && std::fabs(e) > (long double)std::numeric_limits<R>::min() && std::fabs(gotn - en) > 8 * std::fabs(en) * (long double)std::numeric_limits<R>::epsilon()) fail(x, "int_pow<-" + std::to_string(N) + "> off by more than 8 ulp");
        }
    }
    void check(R x) {
        g_crumb.inst = id; snprintf(g_crumb.what, sizeof g_crumb.what, "x=%s y=0", val_s(x).c_str());
        auto q = au::make_quantity<U>(x);
        ipow<0>(x); ipow<1>(x); ipow<2>(x); ipow<3>(x); ipow<4>(x);
        auto s = au::sqrt(q); auto c = au::cbrt(q); st.evals += 2;
        static_assert(std::is_same<typename decltype(s)::Unit, au::UnitPowerT<U, 1, 2>>::value, "sqrt unit");
        static_assert(std::is_same<typename decltype(c)::Unit, au::UnitPowerT<U, 1, 3>>::value, "cbrt unit");
        static_assert(std::is_same<au::detail::DimT<typename decltype(s)::Unit>, SqDim>::value && std::is_same<au::detail::MagT<typename decltype(s)::Unit>, SqMag>::value, "sqrt unit (model)");
        static_assert(std::is_same<typename decltype(s)::Rep, decltype(std::sqrt(x))>::value && std::is_same<typename decltype(c)::Rep, decltype(std::cbrt(x))>::value, "sqrt/cbrt rep");
        if (!beq14(s.in(typename decltype(s)::Unit{}), std::sqrt(x))) fail(x, "sqrt differs from std::sqrt");
        if (!beq14(c.in(typename decltype(c)::Unit{}), std::cbrt(x))) fail(x, "cbrt differs from std::cbrt");
        if constexpr (std::is_floating_point<R>::value) {
            auto inv = R(1) / q; auto inv2 = 2 / q; st.evals += 2;
            static_assert(std::is_same<au::detail::DimT<typename decltype(inv)::Unit>, au::detail::DimT<au::UnitInverseT<U>>>::value, "1/q unit");
            if (!beq14(inv.in(typename decltype(inv)::Unit{}), R(1) / x)) fail(x, "1/q differs from raw");
            if (!beq14(inv2.in(typename decltype(inv2)::Unit{}), 2 / x)) fail(x, "2/q differs from raw");
        } else if (x != 0) {
            auto inv = R(100) / au::unblock_int_div(q); st.evals++;
            if (inv.in(typename decltype(inv)::Unit{}) != R(100) / x) fail(x, "x / unblock_int_div(q) differs from raw");
        }
        if (x != 0) { uint64_t k = 0; memcpy(&k, &x, sizeof(R) < 8 ? sizeof(R) : 8); dn.add(k); }
    }
    static bool prop(void *self, const uint64_t *d, size_t) { Pow14 *me = static_cast<Pow14 *>(self); uint64_t f = me->st.fails; R x = (d[0] % 3 == 0) ? R(int64_t(d[1] % 200001) - (std::is_signed<R>::value ? 100000 : 0)) : (d[0] % 3 == 1 ? R((long double)(std::is_signed<R>::value ? int64_t(d[1] % 2000001) - 1000000 : int64_t(d[1] % 2000001)) / 997) : R(int64_t(d[1] >> (d[1] % 40)))); me->check(x); return me->st.fails == f; }
    void run() {
        if (!g_args.want(id)) return;
        if (g_args.one) { check(parse_val<R>(g_args.one_vals.at(0))); printf("AUVONE %s\n", failed ? "fail" : "ok"); return; }
        bool ex = false;
        if (sizeof(R) <= 2) { ex = true; for (int v = int(std::numeric_limits<R>::lowest()); v <= int(std::numeric_limits<R>::max()) && !failed; ++v) check(R(v)); }
        else { uint64_t out[2]; rc_run(id, 2, &Pow14::prop, this, out); }
        st.inst = id; st.exhaustive = ex; st.nontrivial = dn.n; st.hist = "\"powers\":true"; st.samples.push_back(std::string(TypeName<R>::name()) + " powers"); report(st);
    }
};

}  // namespace auv
