// C12 run-time program: primality / factoring / modular helpers vs independent oracles.
//   --shard k n : this process handles shard k of n ;  --lim-log2 L : exhaustive bound 2^L
//   --one <kind> <args...> : replay a single input
#include "au/utility/factoring.hh"
#include "auv.hh"
#include <algorithm>

using namespace auv;
namespace ad = au::detail;

// ---------------- independent oracle code (shares nothing with Au) ----------------
static uint64_t o_mulmod(uint64_t a, uint64_t b, uint64_t n) { return uint64_t((u128)a * b % n); }
static uint64_t o_powmod(uint64_t a, uint64_t e, uint64_t n) {
    uint64_t r = 1 % n; a %= n;
    while (e) { if (e & 1) r = o_mulmod(r, a, n); a = o_mulmod(a, a, n); e >>= 1; }
    return r;
}
static bool o_mr(uint64_t n, uint64_t a) {  // n odd > 2, 1 < a < n
    uint64_t d = n - 1; int s = 0; while (!(d & 1)) { d >>= 1; ++s; }
    uint64_t x = o_powmod(a, d, n); if (x == 1 || x == n - 1) return true;
    for (int i = 1; i < s; ++i) { x = o_mulmod(x, x, n); if (x == n - 1) return true; }
    return false;
}
// deterministic for n < 2^64 (Sinclair's 7 bases) + trial division by 12 small primes
static bool o_isprime(uint64_t n) {
    if (n < 2) return false;
    static const uint64_t sp[] = {2, 3, 5, 7, 11, 13, 17, 19, 23, 29, 31, 37};
    for (uint64_t p : sp) if (n % p == 0) return n == p;
    static const uint64_t bases[] = {2, 325, 9375, 28178, 450775, 9780504, 1795265022};
    for (uint64_t a : bases) { uint64_t b = a % n; if (b == 0) continue; if (!o_mr(n, b)) return false; }
    return true;
}
// Selfridge strong Lucas (own implementation; only used to *select* inputs, never as oracle)
static int o_jacobi(int64_t a, uint64_t n) {
    int r = 1;
    // generic Jacobi with signed numerator
    __int128 A = a; __int128 N = n; A %= N; if (A < 0) A += N;
    while (A != 0) {
        while ((A & 1) == 0) { A >>= 1; int k = int(N & 7); if (k == 3 || k == 5) r = -r; }
        __int128 t = A; A = N; N = t;
        if ((A & 3) == 3 && (N & 3) == 3) r = -r;
        A %= N;
    }
    return N == 1 ? r : 0;
}
static bool o_is_square(uint64_t n) { uint64_t r = (uint64_t)sqrtl((long double)n); while ((u128)r * r > n) --r; while ((u128)(r + 1) * (r + 1) <= n) ++r; return (u128)r * r == n; }
static bool o_strong_lucas(uint64_t n) {  // n odd, > 2, not square
    if (o_is_square(n)) return false;
    int64_t D = 5; while (true) { int j = o_jacobi(D, n); if (j == -1) break; if (j == 0 && (uint64_t)(D < 0 ? -D : D) < n) return false; D = D > 0 ? -(D + 2) : -(D - 2); }
    // P = 1, Q = (1-D)/4
    auto mod = [&](__int128 x) { x %= (__int128)n; if (x < 0) x += n; return (uint64_t)x; };
    uint64_t Q = mod((__int128)(1 - D) / 4);
    uint64_t d = n + 1; int s = 0; while (!(d & 1)) { d >>= 1; ++s; }
    uint64_t Uu = 1, V = 1, Qk = Q; uint64_t Dm = mod(D);
    auto half = [&](uint64_t x) { return (x & 1) ? uint64_t(((u128)x + n) >> 1) : x >> 1; };
    int top = 63; while (!((d >> top) & 1)) --top;
    for (int b = top - 1; b >= 0; --b) {
        Uu = o_mulmod(Uu, V, n);
        V = mod((__int128)o_mulmod(V, V, n) - 2 * (__int128)Qk); Qk = o_mulmod(Qk, Qk, n);
        if ((d >> b) & 1) {
            uint64_t U2 = half(mod((__int128)Uu + V));
            uint64_t V2 = half(mod((__int128)o_mulmod(Dm, Uu, n) + V));
            Uu = U2; V = V2; Qk = o_mulmod(Qk, Q, n);
        }
    }
    if (Uu == 0 || V == 0) return true;
    for (int r = 1; r < s; ++r) { V = mod((__int128)o_mulmod(V, V, n) - 2 * (__int128)Qk); Qk = o_mulmod(Qk, Qk, n); if (V == 0) return true; }
    return false;
}

// ---------------- bookkeeping ----------------
static uint64_t g_fail = 0;
static void fail(const char *inst, const std::string &in, const std::string &msg) { if (g_fail < 5) report_fail(inst, in, msg); ++g_fail; }
static std::string j1(const char *k, uint64_t n) { return std::string("{\"kind\":\"") + k + "\",\"n\":\"" + to_s(u128(n)) + "\"}"; }

AUV_NOINLINE static bool lib_is_prime(uint64_t n) { return ad::is_prime(n); }
AUV_NOINLINE static uint64_t lib_factor(uint64_t n) { return ad::find_prime_factor(n); }

struct PrimeStats { uint64_t evals = 0, nt = 0, primes = 0, sprp2 = 0, slprp = 0, factored = 0; };

// check one n against the oracle answer 'p' (is prime); factor check optional
static bool check_n(const char *inst, uint64_t n, bool p, bool do_factor, PrimeStats &st) {
    g_crumb.inst = inst; snprintf(g_crumb.what, sizeof g_crumb.what, "n=%s", to_s(u128(n)).c_str());
    bool ok = true; ++st.evals;
    if (lib_is_prime(n) != p) { fail(inst, j1("is_prime", n), std::string("is_prime returned ") + (p ? "false for a prime" : "true for a non-prime")); return false; }   // stop here: the factor finder relies on is_prime and may not terminate
    bool nt = p;
    if (n > 3 && (n & 1)) {
        // strong_lucas is only ever reached through baillie_psw after miller_rabin(2) passed; n = 2^64-1 (n+1 wraps to 0) never
        // gets there, so the direct call respects that caller-side precondition.
        auto mr = ad::miller_rabin(2u, n); auto sl = (n == ~0ull) ? ad::PrimeResult::COMPOSITE : ad::strong_lucas(n);
        if (p && mr == ad::PrimeResult::COMPOSITE) { fail(inst, j1("miller_rabin2", n), "miller_rabin(2,n)==COMPOSITE for a prime"); ok = false; }
        if (p && sl == ad::PrimeResult::COMPOSITE) { fail(inst, j1("strong_lucas", n), "strong_lucas(n)==COMPOSITE for a prime"); ok = false; }
        if (mr == ad::PrimeResult::BAD_INPUT || sl == ad::PrimeResult::BAD_INPUT) { fail(inst, j1("bad_input", n), "BAD_INPUT for odd n>3"); ok = false; }
        if (!p && mr == ad::PrimeResult::PROBABLY_PRIME) { ++st.sprp2; nt = true; }
        if (!p && sl == ad::PrimeResult::PROBABLY_PRIME) { ++st.slprp; nt = true; }
        bool bp = ad::baillie_psw(n) == ad::PrimeResult::PROBABLY_PRIME;
        if (bp != p) { fail(inst, j1("baillie_psw", n), "baillie_psw disagrees with oracle"); ok = false; }
    }
    if (p) ++st.primes;
    if (nt) ++st.nt;
    if (do_factor && n > 1) {
        uint64_t f = lib_factor(n); ++st.factored;
        if (f < 2 || n % f != 0 || !o_isprime(f)) { fail(inst, j1("find_prime_factor", n), "find_prime_factor returned " + to_s(u128(f)) + " (not a prime divisor)"); ok = false; }
        if (p && f != n) { fail(inst, j1("find_prime_factor", n), "prime input: factor != n"); ok = false; }
    }
    return ok;
}

// ---------------- (a) exhaustive vs segmented sieve ----------------
static void exhaustive(unsigned shard, unsigned nshards, unsigned lim_log2) {
    const uint64_t LIM = 1ull << lim_log2, SEG = 1ull << 20;
    // base primes up to sqrt(LIM)
    uint64_t rt = 1; while (rt * rt < LIM) ++rt;
    std::vector<uint32_t> base; { std::vector<bool> c(rt + 2, false); for (uint64_t i = 2; i <= rt + 1; ++i) { if (!c[i]) { base.push_back(uint32_t(i)); for (uint64_t j = i * i; j <= rt + 1; j += i) c[j] = true; } } }
    PrimeStats st; std::vector<char> comp(SEG);
    uint64_t nseg = LIM / SEG;
    for (uint64_t sgi = shard; sgi < nseg && g_fail == 0; sgi += nshards) {
        uint64_t lo = sgi * SEG, hi = lo + SEG;
        std::fill(comp.begin(), comp.end(), 0);
        for (uint32_t p : base) { uint64_t pp = uint64_t(p) * p; if (pp >= hi) break; uint64_t s = std::max(pp, (lo + p - 1) / p * p); for (uint64_t j = s; j < hi; j += p) comp[j - lo] = 1; }
        for (uint64_t n = lo; n < hi && g_fail == 0; ++n) {
            bool p = n >= 2 && !comp[n - lo];
            check_n("exhaustive", n, p, true, st);
        }
    }
    Stats s; s.inst = "exhaustive"; s.evals = st.evals; s.nontrivial = st.nt; s.exhaustive = true;
    char h[200]; snprintf(h, sizeof h, "\"lim_log2\":%u,\"primes\":%" PRIu64 ",\"strong_psp2\":%" PRIu64 ",\"strong_lucas_psp\":%" PRIu64 ",\"factored\":%" PRIu64, lim_log2, st.primes, st.sprp2, st.slprp, st.factored);
    s.hist = h; s.samples.push_back("all n in shard segments below 2^" + std::to_string(lim_log2)); report(s);
}

// ---------------- (b) adversarial 64-bit sets (selected by independent code) ----------------
struct Draws { const uint64_t *d; size_t i; uint64_t next() { return d[i++]; } };

static void adversarial(unsigned shard, unsigned nshards, bool thorough) {
    PrimeStats st; Distinct dn(20); uint64_t idx = 0; uint64_t n_hard = 0; const uint64_t hard_cap = thorough ? 400 : 24;  // per shard
    auto take = [&]() { return (idx++ % nshards) == shard; };
    auto feed = [&](uint64_t n, bool factor) {
        if (!take() || g_fail) return;
        bool p = o_isprime(n);
        bool hard = factor && !p && n > (1ull << 40);
        if (hard) { if (n_hard >= hard_cap) factor = false; else ++n_hard; }
        check_n("adversarial", n, p, factor, st); dn.add(n);
    };
    // specials
    for (uint64_t n = 0; n < 64; ++n) feed(n, true);
    const uint64_t sp[] = {18446744073709551557ull, 18446744073709551615ull, 18446744073709551556ull, 9223372036854775783ull,
                           4611686014132420609ull, 18446744030759878681ull, 2305843009213693951ull, 4294967291ull, 4294967311ull,
                           3825123056546413051ull /* strong psp to bases 2..37 below it */, 3215031751ull, 341550071728321ull, 2047ull, 1373653ull, 25326001ull,
                           5459ull, 5777ull, 10877ull, 16109ull, 18971ull /* strong Lucas psp */, 9223372036854775807ull, 18446744073709551614ull};
    for (uint64_t n : sp) feed(n, true);
    // neighbours of every power of two
    for (int k = 2; k < 64; ++k) for (int dlt = -40; dlt <= 40; ++dlt) { uint64_t n = (1ull << k) + uint64_t(int64_t(dlt)); feed(n, k <= 40 || (dlt & 7) == 0); }
    for (int dlt = 1; dlt <= 300; ++dlt) feed(0ull - uint64_t(dlt), (dlt % 16) == 0);
    // k*2^t +- 1 (Proth / Riesel shapes): n-1 or n+1 has exactly t trailing zero bits, for EVERY t -- the decomposition n-+1 = 2^s*d of Miller-Rabin and strong Lucas
    // is otherwise only exercised with small s (random n) or with d = 1 (powers of two)
    for (int t = 1; t < 64; ++t) for (uint64_t k = 1; k < 256; k += 2) { u128 c = (u128)k << t; if ((c + 1) >> 64) break; feed(uint64_t(c) - 1, t <= 34 && k < 16); feed(uint64_t(c) + 1, t <= 34 && k < 16); }
    // deterministic LCG for family parameters (not a random choice of the *test*: fixed enumeration order)
    uint64_t s = 0x9e3779b97f4a7c15ull; auto lcg = [&] { s = s * 6364136223846793005ull + 1442695040888963407ull; return s >> 11; };
    const int rounds = thorough ? 3000000 : 300000;
    for (int it = 0; it < rounds && !g_fail; ++it) {
        uint64_t p = (lcg() % ((1ull << 31) - 3)) | 1; if (p < 5 || !o_isprime(p)) continue;
        // strong base-2 pseudoprime family p*(k(p-1)+1)
        for (uint64_t k = 2; k <= 6; ++k) { uint64_t q = k * (p - 1) + 1; if (!o_isprime(q)) continue; u128 nn = (u128)p * q; if (nn >> 64) continue; uint64_t n = uint64_t(nn); if (o_mr(n, 2)) feed(n, true); else if ((it & 15) == 0) feed(n, false); }
        // strong Lucas pseudoprime family p*(k(p+1)-1)
        for (uint64_t k = 2; k <= 6; ++k) { uint64_t q = k * (p + 1) - 1; if (!o_isprime(q)) continue; u128 nn = (u128)p * q; if (nn >> 64) continue; uint64_t n = uint64_t(nn); if ((n & 1) && o_strong_lucas(n)) feed(n, true); else if ((it & 15) == 0) feed(n, false); }
        // prime squares and twin products
        if (p < (1ull << 32)) { feed(p * p, (it & 7) == 0); if (o_isprime(p + 2)) feed(p * (p + 2), (it & 7) == 0); }
    }
    // Carmichael numbers (6k+1)(12k+1)(18k+1)
    for (uint64_t k = 1; k < (thorough ? 400000u : 60000u); ++k) { uint64_t a = 6 * k + 1, b = 12 * k + 1, c = 18 * k + 1; if (!o_isprime(a) || !o_isprime(b) || !o_isprime(c)) continue; u128 nn = (u128)a * b * c; if (nn >> 64) break; feed(uint64_t(nn), true); }
    // semiprimes with p, q adjacent to 2^16, 2^31, 2^32
    const uint64_t centers[] = {1ull << 16, 1ull << 31, 1ull << 32, (1ull << 32) - 5000, 3037000499ull};
    for (uint64_t c : centers) {
        std::vector<uint64_t> ps; for (uint64_t v = c - 400; v < c + 400; ++v) if (o_isprime(v)) ps.push_back(v);
        for (size_t i = 0; i < ps.size(); ++i) for (size_t j = i; j < ps.size(); j += (c > (1ull << 20) ? 7 : 1)) { u128 nn = (u128)ps[i] * ps[j]; if (nn >> 64) continue; feed(uint64_t(nn), true); }
    }
    // all strong Lucas / base-2 pseudoprimes below 2^22 by brute force (own implementations select them)
    for (uint64_t n = 9; n < (1ull << 22); n += 2) { if (o_isprime(n)) continue; if (o_mr(n, 2) || o_strong_lucas(n)) feed(n, true); }
    Stats r; r.inst = "adversarial"; r.evals = st.evals; r.nontrivial = dn.n;
    char h[240]; snprintf(h, sizeof h, "\"primes\":%" PRIu64 ",\"strong_psp2\":%" PRIu64 ",\"strong_lucas_psp\":%" PRIu64 ",\"factored\":%" PRIu64 ",\"hard_semiprimes_factored\":%" PRIu64, st.primes, st.sprp2, st.slprp, st.factored, n_hard);
    r.hist = h; r.samples.push_back("families: p(k(p-1)+1), p(k(p+1)-1), Carmichael, p^2, p(p+2), semiprimes near 2^16/2^31/2^32, 2^k+-40, 2^64-d, k*2^t+-1 for every t"); report(r);
}

// ---------------- (c) modular helpers via rapidcheck draws ----------------
struct ModCtx { uint64_t evals = 0, big = 0; Distinct dn{20}; bool failed = false; };
static uint64_t pick_mod(uint64_t cls, uint64_t raw) {
    switch (cls % 8) {
        case 0: return (1ull << 63) + (raw % 2001) - 1000;
        case 1: return 0ull - 1 - (raw % 2000);
        case 2: return (1ull << 32) + (raw % 2001) - 1000;
        case 3: return raw | (1ull << 63);
        case 4: return raw;
        case 5: return 2 + raw % 1000;
        case 6: return (1ull << (2 + raw % 62)) + ((raw >> 8) % 5) - 2;
        default: return raw | 1;
    }
}
static uint64_t pick_op(uint64_t cls, uint64_t raw, uint64_t n) {
    switch (cls % 7) { case 0: return n - 1; case 1: return n / 2; case 2: return 0; case 3: return 1 % n; case 4: return n - 1 - (raw % 3 < n ? raw % 3 : 0); case 5: return (n / 2 + raw % 3) % n; default: return raw % n; }
}
static bool mod_prop(void *vc, const uint64_t *d, size_t) {
    ModCtx *c = static_cast<ModCtx *>(vc);
    uint64_t n = pick_mod(d[0], d[1]); if (n < 2) n = 2;
    uint64_t a = pick_op(d[2], d[3], n), b = pick_op(d[2] / 7, d[4], n), e = (d[5] % 4 == 0) ? d[6] % 70 : d[6];
    g_crumb.inst = "modular"; snprintf(g_crumb.what, sizeof g_crumb.what, "a=%s b=%s n=%s e=%s", to_s(u128(a)).c_str(), to_s(u128(b)).c_str(), to_s(u128(n)).c_str(), to_s(u128(e)).c_str());
    ++c->evals; if (((u128)a * b) >> 64) { ++c->big; c->dn.add(mix(a) ^ mix(b + 1) ^ mix(n + 2)); }
    std::string in = std::string("{\"kind\":\"mod\",\"a\":\"") + to_s(u128(a)) + "\",\"b\":\"" + to_s(u128(b)) + "\",\"n\":\"" + to_s(u128(n)) + "\",\"e\":\"" + to_s(u128(e)) + "\"}";
    bool ok = true;
    if (ad::add_mod(a, b, n) != uint64_t(((u128)a + b) % n)) { fail("modular", in, "add_mod wrong"); ok = false; }
    if (ad::sub_mod(a, b, n) != uint64_t(((u128)a + n - b) % n)) { fail("modular", in, "sub_mod wrong"); ok = false; }
    if (ad::mul_mod(a, b, n) != o_mulmod(a, b, n)) { fail("modular", in, "mul_mod wrong"); ok = false; }
    if (n & 1) { uint64_t h = ad::half_mod_odd(a, n); if (h >= n || uint64_t(((u128)h * 2) % n) != a) { fail("modular", in, "half_mod_odd wrong"); ok = false; } }
    uint64_t base = (d[5] % 3 == 0) ? d[3] : a;  // pow_mod reduces its base itself
    if (ad::pow_mod(base, e, n) != o_powmod(base, e, n)) { fail("modular", in + " base=" + to_s(u128(base)), "pow_mod wrong"); ok = false; }
    if (!ok) c->failed = true;
    return ok;
}
static void modular() {
    ModCtx c; uint64_t out[7] = {0};
    // enumerated edge grid first
    for (uint64_t mc = 0; mc < 8; ++mc) for (uint64_t r = 0; r < 9; ++r) for (uint64_t oc = 0; oc < 49; ++oc) { uint64_t d[7] = {mc, r * 250, oc, r * 0x9e3779b97f4a7c15ull, r * 0xc2b2ae3d27d4eb4full + oc, oc, (r << 40) + oc * 977}; mod_prop(&c, d, 7); }
    if (!c.failed) rc_run("modular", 7, mod_prop, &c, out);
    Stats s; s.inst = "modular"; s.evals = c.evals; s.nontrivial = c.dn.n;
    char h[100]; snprintf(h, sizeof h, "\"product_exceeds_2^64\":%" PRIu64, c.big); s.hist = h;
    s.samples.push_back("moduli near 2^63, 2^64, 2^32, random; operands n-1, n/2, 0, 1, random"); report(s);
}

int main(int argc, char **argv) {
    g_args = parse_args(argc, argv); install_death_callback();
    unsigned lim = 24; for (int i = 1; i + 1 < argc; ++i) if (std::string(argv[i]) == "--lim-log2") lim = unsigned(atoi(argv[i + 1]));
    if (g_args.one) {
        const std::string &k = g_args.one_inst; PrimeStats st;
        if (k == "mod") {
            uint64_t a = parse_val<uint64_t>(g_args.one_vals.at(0)), b = parse_val<uint64_t>(g_args.one_vals.at(1)), n = parse_val<uint64_t>(g_args.one_vals.at(2)), e = parse_val<uint64_t>(g_args.one_vals.at(3));
            bool ok = ad::add_mod(a, b, n) == uint64_t(((u128)a + b) % n) && ad::sub_mod(a, b, n) == uint64_t(((u128)a + n - b) % n) && ad::mul_mod(a, b, n) == o_mulmod(a, b, n) && ad::pow_mod(a, e, n) == o_powmod(a, e, n);
            if (n & 1) { uint64_t h = ad::half_mod_odd(a, n); ok = ok && h < n && uint64_t(((u128)h * 2) % n) == a; }
            printf("AUVONE %s\n", ok ? "ok" : "fail");
        } else {
            uint64_t n = parse_val<uint64_t>(g_args.one_vals.at(0));
            bool ok = check_n("one", n, o_isprime(n), true, st);
            printf("AUVONE %s\n", ok ? "ok" : "fail");
        }
        return 0;
    }
    if (g_args.want("exhaustive")) exhaustive(g_args.shard, g_args.nshards, lim);
    if (g_args.want("adversarial")) adversarial(g_args.shard, g_args.nshards, g_args.thorough);
    if (g_args.want("modular") ) modular();
    return 0;
}
