// C19: ZERO behaves as the exact zero of every unit and rep.  Included after "au/au.hh"; C++14-compatible.
#pragma once
#include "auv.hh"
#include <chrono>

namespace auv {

template <class R, class U>
struct Zero19 {
    const char *id; bool canary; Stats st; Distinct dn; bool failed = false; uint64_t n_special = 0;
    Zero19(const char *i, bool c) : id(i), canary(c), dn(18) {}
    void fail(R x, const char *op) { if (!failed) report_fail(id, std::string("{\"R\":\"") + TypeName<R>::name() + "\",\"op\":\"" + op + "\",\"x\":\"" + val_s(x) + "\"}", std::string("ZERO ") + op + " disagrees with the raw value 0"); failed = true; st.fails++; }
    template <class A> static bool beq(A a, A b) { return memcmp(&a, &b, sizeof(A) > 10 ? 10 : sizeof(A)) == 0 || (a != a && b != b); }
    void check(R x) {
        g_crumb.inst = id; snprintf(g_crumb.what, sizeof g_crumb.what, "x=%s", val_s(x).c_str());
        auto q = au::make_quantity<U>(x); const R z = canary ? R(1) : R(0);
        st.evals += 12;
        if ((q == au::ZERO) != (x == z)) fail(x, "q == ZERO"); if ((q != au::ZERO) != (x != z)) fail(x, "q != ZERO");
        if ((q < au::ZERO) != (x < z)) fail(x, "q < ZERO");   if ((q <= au::ZERO) != (x <= z)) fail(x, "q <= ZERO");
        if ((q > au::ZERO) != (x > z)) fail(x, "q > ZERO");   if ((q >= au::ZERO) != (x >= z)) fail(x, "q >= ZERO");
        if ((au::ZERO == q) != (z == x)) fail(x, "ZERO == q"); if ((au::ZERO != q) != (z != x)) fail(x, "ZERO != q");
        if ((au::ZERO < q) != (z < x)) fail(x, "ZERO < q");   if ((au::ZERO <= q) != (z <= x)) fail(x, "ZERO <= q");
        if ((au::ZERO > q) != (z > x)) fail(x, "ZERO > q");   if ((au::ZERO >= q) != (z >= x)) fail(x, "ZERO >= q");
        // sums and differences: judged against the raw operators on the (promoted) type
        auto s1 = (q + au::ZERO).in(U{}); auto s2 = (q - au::ZERO).in(U{}); auto s3 = (au::ZERO + q).in(U{});
        static_assert(std::is_same<decltype(s1), decltype(x + R(0))>::value, "q + ZERO rep");
        st.evals += 3;
        if (!beq(s1, decltype(s1)(x + R(0)))) fail(x, "q + ZERO"); if (!beq(s2, decltype(s2)(x - R(0)))) fail(x, "q - ZERO"); if (!beq(s3, decltype(s3)(R(0) + x))) fail(x, "ZERO + q");
        if (x == x) { st.evals += 2; if (!((q + au::ZERO) == q)) fail(x, "q + ZERO == q"); if (!((q - au::ZERO) == q)) fail(x, "q - ZERO == q"); }
        bool special = std::is_floating_point<R>::value && (x != x || x - x != 0 || (x == 0 && std::signbit((long double)x)));
        if (special) ++n_special;
        if (x != 0 || special) { uint64_t k = 0; memcpy(&k, &x, sizeof(R) < 8 ? sizeof(R) : 8); dn.add(k); }
    }
    void statics() {
        st.evals += 6;
        au::Quantity<U, R> a{au::ZERO}; au::Quantity<U, R> b = au::ZERO; au::Quantity<U, R> c = au::make_quantity<U>(R(5)); c = au::ZERO;
        if (a.in(U{}) != R(0) || b.in(U{}) != R(0) || c.in(U{}) != R(0)) fail(R(0), "Quantity{ZERO}/= ZERO");
        R r = au::ZERO; if (r != R(0)) fail(R(0), "R r = ZERO");
        std::chrono::duration<R, std::ratio<1, 1000>> d1 = au::ZERO; std::chrono::duration<R, std::ratio<60>> d2 = au::ZERO;
        if (d1.count() != R(0) || d2.count() != R(0)) fail(R(0), "chrono duration = ZERO");
    }
    static R from_bits(uint64_t raw) {
        R v; unsigned char b[sizeof(R)] = {0}; memcpy(b, &raw, sizeof(R) < 8 ? sizeof(R) : 8);
        if (sizeof(R) > 8) { uint16_t se = uint16_t(mix(raw) & 0xffff); memcpy(b + 8, &se, 2); if ((se & 0x7fff) != 0) b[7] |= 0x80; else b[7] &= 0x7f; }
        memcpy(&v, b, sizeof(R)); return v;
    }
    static R special(uint64_t i) {
        if (std::is_floating_point<R>::value) {
            const R sp[] = {R(0), R(-0.0), R(1), R(-1), std::numeric_limits<R>::infinity(), -std::numeric_limits<R>::infinity(), std::numeric_limits<R>::quiet_NaN(), -std::numeric_limits<R>::quiet_NaN(),
                            std::numeric_limits<R>::denorm_min(), R(-std::numeric_limits<R>::denorm_min()), std::numeric_limits<R>::max(), std::numeric_limits<R>::lowest(), std::numeric_limits<R>::min()};
            return sp[i % 13];
        }
        const R sp[] = {R(0), R(1), R(-1), std::numeric_limits<R>::max(), std::numeric_limits<R>::lowest(), R(2), R(std::numeric_limits<R>::max() - 1), R(std::numeric_limits<R>::lowest() + 1)};
        return sp[i % 8];
    }
    static bool prop(void *self, const uint64_t *d, size_t) { Zero19 *me = static_cast<Zero19 *>(self); uint64_t f = me->st.fails; me->check((d[0] % 3 == 0) ? special(d[1]) : (d[0] % 3 == 1 ? from_bits(d[1]) : R(int64_t(d[1] % 2001) - 1000))); return me->st.fails == f; }
    void run() {
        if (!g_args.want(id)) return;
        if (g_args.one) { R x = parse_val<R>(g_args.one_vals.at(0)); check(x); statics(); printf("AUVONE %s\n", failed ? "fail" : "ok"); return; }
        statics();
        bool ex = false;
        if (sizeof(R) <= 2) { ex = true; for (int v = int(std::numeric_limits<R>::lowest()); v <= int(std::numeric_limits<R>::max()) && !failed; ++v) check(R(v)); }
        else { for (uint64_t i = 0; i < 13 && !failed; ++i) check(special(i)); if (!failed) { uint64_t out[2]; rc_run(id, 2, &Zero19::prop, this, out); } }
        st.inst = id; st.exhaustive = ex; st.nontrivial = dn.n;
        char h[100]; snprintf(h, sizeof h, "\"special\":%" PRIu64 ",\"canary\":%s", n_special, canary ? "true" : "false"); st.hist = h;
        st.samples.push_back(std::string(TypeName<R>::name())); report(st);
    }
};

}  // namespace auv
