// C09: QuantityPoint conversions / differences / shifts / comparisons follow the exact affine map.
// Included after "au/au.hh" and the temperature units; C++17.
#pragma once
#include "auv.hh"

namespace auv {

struct Frac { long long n, d; };   // exact rational (kelvins), d > 0

struct PtSpec {
    const char *id;
    Frac mU, oU, mV, oV;     // scale and origin of source unit U and target unit V
    long long fineU, fineV;  // mU/ff, mV/ff for the finest unit ff dividing scales, origins and origin units
    long long fineD;         // |oU - oV| / ff
    bool canary;
};

template <class U, class V, class R, class T, bool CMP>
struct Affine {
    PtSpec sp; Stats st; Distinct dn; bool failed = false;
    uint64_t n_conv = 0, n_conv_asserted = 0, n_cmp = 0, n_diff = 0;
    explicit Affine(const PtSpec &s) : sp(s), dn(19) {}
    typedef std::common_type_t<R, T> CT;

    template <class Y> std::string js(R x, Y y) const { return std::string("{\"R\":\"") + TypeName<R>::name() + "\",\"T\":\"" + TypeName<T>::name() + "\",\"x\":\"" + val_s(x) + "\",\"y\":\"" + val_s(y) + "\"}"; }
    template <class Y> void fail(R x, Y y, const std::string &m) { if (!failed) report_fail(sp.id, js(x, y), m); failed = true; st.fails++; }

    template <class X> static i128 budget() { return std::is_floating_point<X>::value ? (i128(1) << 50) : (i128(1) << (sizeof(X) * 8 - (std::is_signed<X>::value ? 1 : 0) - 2)); }
    // does |v| (signed) / v (unsigned) fit X with two bits to spare?
    template <class X> static bool fits2(i128 v) { if (!std::is_signed<X>::value && !std::is_floating_point<X>::value && v < 0) return false; i128 a = v < 0 ? -v : v; return a < budget<X>(); }

    // exact numerator/denominator of (x*mU + oU - oV)/mV
    static void affine(const PtSpec &sp, i128 x, i128 &num, i128 &den) {
        // x*mU + oU - oV = (x*mU.n*oU.d*oV.d + oU.n*mU.d*oV.d - oV.n*mU.d*oU.d) / (mU.d*oU.d*oV.d)
        i128 D = i128(sp.mU.d) * sp.oU.d * sp.oV.d;
        i128 N = x * sp.mU.n * sp.oU.d * sp.oV.d + i128(sp.oU.n) * sp.mU.d * sp.oV.d - i128(sp.oV.n) * sp.mU.d * sp.oU.d;
        num = N * sp.mV.d; den = D * sp.mV.n;
    }
    template <class X> static bool in_range(i128 v) {
        if (std::is_floating_point<X>::value) return true;
        return v >= i128(std::numeric_limits<X>::lowest()) && (v < 0 || u128(v) <= u128(std::numeric_limits<X>::max()));
    }

    AUV_NOINLINE static T conv(R x) { return au::make_quantity_point<U>(x).template coerce_in<T>(V{}); }
    AUV_NOINLINE static T conv2(R x) { return au::make_quantity_point<U>(x).template as<T>(V{}).in(V{}); }

    void check_conv(R x) {
        g_crumb.inst = sp.id; snprintf(g_crumb.what, sizeof g_crumb.what, "conv x=%s y=0", val_s(x).c_str());
        ++n_conv; st.evals++;
        i128 xi = i128((long long)x);  // integral-valued inputs only (floating reps get integral values too)
        i128 num, den; affine(sp, xi, num, den); if (sp.canary) num += den;
        // intermediates in the finest unit must fit the calculation rep with two bits to spare
        if (!(fits2<CT>(xi * sp.fineU) && fits2<CT>(i128(sp.fineD)) && fits2<CT>(xi * sp.fineU + sp.fineD) && fits2<CT>(xi * sp.fineU - sp.fineD))) return;
        if (std::is_unsigned<CT>::value && !std::is_floating_point<CT>::value) {
            // unsigned calculation rep: the displacement itself must be representable (target origin not below source origin)
            if (i128(sp.oV.n) * sp.oU.d < i128(sp.oU.n) * sp.oV.d) return;
        }
        if (std::is_floating_point<T>::value || std::is_floating_point<R>::value) {
            long double e = (long double)num / (long double)den;
            long double scale = std::fabs((long double)xi * sp.fineU) + sp.fineD;  // size of the larger intermediate
            long double epsr = (long double)std::numeric_limits<CT>::epsilon();   // the documented calculation rep: every intermediate is rounded to CT ...
            long double epst = std::is_floating_point<T>::value ? (long double)std::numeric_limits<T>::epsilon() : 0.0L;   // ... and only the final result to a (possibly narrower) floating T
            long double tol = 4 * epsr * (scale / (long double)sp.fineV + std::fabs(e)) + 2 * epst * std::fabs(e) + 1e-30L;   // scale is in units of the finest unit ff; one target unit is fineV of them
            if (std::is_integral<T>::value) { if (num % den != 0) return; if (!in_range<T>(num / den)) return; tol += 0; }
            ++n_conv_asserted;
            long double r = (long double)conv(x), r2 = (long double)conv2(x);
            if (std::is_integral<T>::value) {
                // floating source to integral target truncates the floating result: allow the value just below an integer to land one lower
                if (std::fabs(r - e) > 1 || r != r2) fail(x, R(0), "coerce_in<T> = " + val_s(T(r)) + " exact " + val_s(e));
            } else if (std::fabs(r - e) > tol || std::fabs(r2 - e) > tol) fail(x, R(0), "coerce_in<T> = " + val_s(T(r)) + " exact " + val_s(e));
            if (x != 0) dn.add(uint64_t((long long)x));
            return;
        }
        if (num % den != 0) return;          // true result not an integer: nothing asserted
        i128 e = num / den;
        if (!in_range<T>(e) || !fits2<CT>(e)) return;
        ++n_conv_asserted;
        T r = conv(x), r2 = conv2(x);
        if (i128(r) != e || i128(r2) != e) fail(x, R(0), "coerce_in<T> = " + val_s(r) + " as<T>.in = " + val_s(r2) + " exact " + to_s(e));
        if (x != 0) dn.add(uint64_t((long long)x));
    }

    // comparisons, p - q, p +- d : the second operand carries the TARGET rep T, so mixed-rep operations are exercised whenever R != T
    template <bool B = CMP>
    typename std::enable_if<B>::type check_pair(R x, T y) {
        g_crumb.inst = sp.id; snprintf(g_crumb.what, sizeof g_crumb.what, "pair x=%s y=%s", val_s(x).c_str(), val_s(y).c_str());
        i128 xi = i128((long long)x), yi = i128((long long)y);
        // everything is computed in the common rep CT: the model intermediates must fit it with two bits to spare
        if (!(fits2<CT>(xi * sp.fineU) && fits2<CT>(yi * sp.fineV) && fits2<CT>(i128(sp.fineD)) && fits2<CT>(xi * sp.fineU + sp.fineD) && fits2<CT>(yi * sp.fineV + sp.fineD) && fits2<CT>(xi * sp.fineU - yi * sp.fineV))) return;
        // exact positions over a common denominator
        i128 Dn = i128(sp.mU.d) * sp.oU.d * sp.mV.d * sp.oV.d;
        i128 P = (xi * sp.mU.n * sp.oU.d + i128(sp.oU.n) * sp.mU.d) * sp.mV.d * sp.oV.d;
        i128 Q = (yi * sp.mV.n * sp.oV.d + i128(sp.oV.n) * sp.mV.d) * sp.mU.d * sp.oU.d;
        if (sp.canary) Q += Dn;
        auto p = au::make_quantity_point<U>(x); auto q = au::make_quantity_point<V>(y);
        ++n_cmp; st.evals += 6;
        bool band = false;
        if (std::is_floating_point<CT>::value) { long double d = std::fabs((long double)(P - Q) / (long double)Dn); long double s = (std::fabs((long double)P) + std::fabs((long double)Q)) / (long double)Dn + (long double)sp.fineD / (long double)sp.fineU * (long double)sp.mU.n / (long double)sp.mU.d; band = d <= 16 * s * (long double)std::numeric_limits<CT>::epsilon(); }
        if (!band) {
            if ((p == q) != (P == Q) || (p != q) != (P != Q) || (p < q) != (P < Q) || (p <= q) != (P <= Q) || (p > q) != (P > Q) || (p >= q) != (P >= Q))
                fail(x, y, "comparison disagrees with absolute positions");
        }
        // p - q : exact displacement
        auto d = p - q; ++n_diff; st.evals++;
        typedef typename decltype(d)::Unit DU;
        // value * mag(DU) == (P - Q)/Dn ; mag(DU) read through its exact ratio to U (a rational a/b evaluated by the library at compile time)
        constexpr auto ratio = au::unit_ratio(DU{}, U{});     // DU = ratio * U
        constexpr long double rl = au::get_value<long double>(ratio);
        long double lhs = (long double)d.in(DU{}) * rl * (long double)sp.mU.n / (long double)sp.mU.d;
        long double rhs = (long double)(P - Q) / (long double)Dn;
        long double tol = (std::is_floating_point<CT>::value ? 32 * (long double)std::numeric_limits<CT>::epsilon() * ((std::fabs((long double)P) + std::fabs((long double)Q)) / (long double)Dn + (long double)sp.fineD / (long double)sp.fineU * (long double)sp.mU.n / (long double)sp.mU.d) : 0) + 1e-9L * std::fabs(rhs) + 1e-12L;
        if (std::fabs(lhs - rhs) > tol) fail(x, y, "(p - q) is not the exact displacement: " + val_s(lhs) + " K vs " + val_s(rhs) + " K");
        // p + d and p - d with d = displacement quantity in V's scale: shifts position by exactly y*mV
        auto dq = au::make_quantity<V>(y);
        auto s1 = p + dq, s2 = p - dq; st.evals += 2;
        typedef typename decltype(s1)::Unit SU;
        // position of s1 in kelvins = value*mag(SU) + origin(SU); compare via conversion back to a double-rep point in U: exact for integral reps within budget
        long double back1 = (long double)s1.template coerce_in<long double>(U{}), back2 = (long double)s2.template coerce_in<long double>(U{});
        long double shift = (long double)yi * (long double)sp.mV.n / (long double)sp.mV.d * (long double)sp.mU.d / (long double)sp.mU.n;
        long double t2 = 1e-9L * (std::fabs((long double)xi) + std::fabs(shift)) + 1e-9L + (std::is_floating_point<CT>::value ? 64 * (long double)std::numeric_limits<CT>::epsilon() * (std::fabs((long double)xi) + std::fabs(shift) + (long double)sp.fineD / (long double)sp.fineU) : 0);
        if (std::fabs(back1 - ((long double)xi + shift)) > t2 || std::fabs(back2 - ((long double)xi - shift)) > t2) fail(x, y, "p +/- d does not shift by exactly the displacement");
        (void)sizeof(SU);
        if (!(x == 0 && y == 0)) dn.add(mix(uint64_t((long long)x)) ^ mix(uint64_t((long long)y) + 3));
    }
    template <bool B = CMP>
    typename std::enable_if<!B>::type check_pair(R, T) {}
    T clampT(long long v) const { if (!std::is_floating_point<T>::value) { if (i128(v) < i128(std::numeric_limits<T>::lowest())) return std::numeric_limits<T>::lowest(); if (v > 0 && u128(v) > u128(std::numeric_limits<T>::max())) return std::numeric_limits<T>::max(); } return T(v); }

    // value of the other unit's origin expressed in this unit (window centres)
    long long origin_in_U() const { long double v = ((long double)sp.oV.n / sp.oV.d - (long double)sp.oU.n / sp.oU.d) / ((long double)sp.mU.n / sp.mU.d); if (v > 4e18L) v = 4e18L; if (v < -4e18L) v = -4e18L; return (long long)v; }
    R clampR(long long v) const { if (!std::is_floating_point<R>::value) { if (i128(v) < i128(std::numeric_limits<R>::lowest())) return std::numeric_limits<R>::lowest(); if (v > 0 && u128(v) > u128(std::numeric_limits<R>::max())) return std::numeric_limits<R>::max(); } return R(v); }
    void gen(const uint64_t *d, R &x, R &y) const {
        long long c = origin_in_U();
        switch (d[0] % 5) {
            case 0: x = clampR((long long)(d[1] % 65537) - 32768); break;
            case 1: x = clampR(c + (long long)(d[1] % 65537) - 32768); break;
            case 2: x = clampR(-c + (long long)(d[1] % 2001) - 1000); break;
            case 3: x = clampR((long long)(d[1] >> (d[1] % 50))); if (d[1] & 1) x = clampR(-(long long)(d[1] >> (1 + d[1] % 50))); break;
            default: { long long k = (long long)(d[1] % 20001) - 10000; x = clampR(k * sp.mV.n * sp.mU.d); break; }  // multiples likely to give integral results
        }
        y = clampR((long long)(d[2] % 65537) - 32768);
        if ((d[2] >> 20) % 3 == 0) {  // y near the position of x
            long double pos = ((long double)((long long)x) * sp.mU.n / sp.mU.d + (long double)sp.oU.n / sp.oU.d - (long double)sp.oV.n / sp.oV.d) * sp.mV.d / sp.mV.n;
            if (std::fabs(pos) < 4e18L) y = clampR((long long)pos + (long long)(d[2] % 5) - 2);
        }
    }
    static bool prop(void *self, const uint64_t *d, size_t) { Affine *me = static_cast<Affine *>(self); R x, y; me->gen(d, x, y); uint64_t f = me->st.fails; me->check_conv(x); me->check_pair(x, me->clampT((long long)y)); return me->st.fails == f; }
    void run() {
        if (!g_args.want(sp.id)) return;
        if (g_args.one) { R x = parse_val<R>(g_args.one_vals.at(0)); T y = parse_val<T>(g_args.one_vals.at(1)); check_conv(x); check_pair(x, y); printf("AUVONE %s\n", failed ? "fail" : "ok"); return; }
        // exhaustive windows of +-2^15 around 0 and around the other unit's origin
        long long c = origin_in_U();
        for (long long k = -32768; k <= 32768 && !failed; ++k) { check_conv(clampR(k)); check_conv(clampR(c + k)); if ((k & 63) == 0) check_pair(clampR(k), clampT(k / 3)); }
        if (!failed) { uint64_t out[3]; rc_run(sp.id, 3, &Affine::prop, this, out); }
        st.inst = sp.id; st.exhaustive = false; st.nontrivial = dn.n;
        char h[200]; snprintf(h, sizeof h, "\"conversions\":%" PRIu64 ",\"conversions_asserted\":%" PRIu64 ",\"comparisons\":%" PRIu64 ",\"differences\":%" PRIu64 ",\"canary\":%s", n_conv, n_conv_asserted, n_cmp, n_diff, sp.canary ? "true" : "false");
        st.hist = h; st.samples.push_back(std::string(TypeName<R>::name()) + " -> " + TypeName<T>::name()); report(st);
    }
};

}  // namespace auv
