// C13: Quantity<U,R> is a transparent wrapper: round trip is bit-exact, same-unit operators equal the raw
// operators (value AND result type).  Included after "au/au.hh" by generated TUs (C++17).
#pragma once
#include "auv.hh"

namespace auv {

template <class T>
inline bool bits_eq(const T &a, const T &b) {
    if (std::is_floating_point<T>::value && sizeof(T) > 10) return memcmp(&a, &b, 10) == 0;  // x87: 80 significant bits
    return memcmp(&a, &b, sizeof(T)) == 0;
}
// value equality for results: bit-equal, or both NaN (NaN payload selection may legitimately depend on operand order)
template <class T>
inline typename std::enable_if<std::is_floating_point<T>::value, bool>::type same(const T &a, const T &b) {
    return bits_eq(a, b) || (a != a && b != b);
}
template <class T>
inline typename std::enable_if<!std::is_floating_point<T>::value, bool>::type same(const T &a, const T &b) { return a == b; }

template <class R, bool F = std::is_floating_point<R>::value>
struct RawUB {  // would the raw operator be UB (or trap) on these operands?
    typedef decltype(std::declval<R>() + std::declval<R>()) P;
    static bool add(R x, R y) { if (!std::is_signed<P>::value) return false; i128 r = i128(x) + i128(y); return r < i128(std::numeric_limits<P>::lowest()) || r > i128(std::numeric_limits<P>::max()); }
    static bool sub(R x, R y) { if (!std::is_signed<P>::value) return false; i128 r = i128(x) - i128(y); return r < i128(std::numeric_limits<P>::lowest()) || r > i128(std::numeric_limits<P>::max()); }
    static bool mul(R x, R y) { if (!std::is_signed<P>::value) return false; i128 r = i128(x) * i128(y); return r < i128(std::numeric_limits<P>::lowest()) || r > i128(std::numeric_limits<P>::max()); }
    static bool div(R x, R y) { return y == 0 || (std::is_signed<P>::value && i128(x) == i128(std::numeric_limits<P>::lowest()) && i128(y) == -1); }
    static bool neg(R x) { return std::is_signed<P>::value && i128(x) == i128(std::numeric_limits<P>::lowest()); }
};
template <class R>
struct RawUB<R, true> {
    static bool add(R, R) { return false; } static bool sub(R, R) { return false; } static bool mul(R, R) { return false; }
    static bool div(R, R) { return false; } static bool neg(R) { return false; }
};

// F5EXCL: the known-finding class (%, unary +/- on sub-int reps) is excluded by construction when true
template <class R, class U, bool F5EXCL>
struct Wrap13 {
    const char *id; bool canary;
    Stats st; Distinct dn; bool failed = false;
    uint64_t n_special = 0, n_pairs = 0;
    Wrap13(const char *i, bool c) : id(i), canary(c), dn(19) {}

    static std::string js(const char *op, R x, R y) {
        return std::string("{\"R\":\"") + TypeName<R>::name() + "\",\"op\":\"" + op + "\",\"x\":\"" + val_s(x) + "\",\"y\":\"" + val_s(y) + "\"}";
    }
    void fail(const char *op, R x, R y, const std::string &msg) {
        if (!failed) report_fail(id, js(op, x, y), msg);
        failed = true; st.fails++;
    }
    AUV_NOINLINE static R rt(R x) { return au::make_quantity<U>(x).in(U{}); }
    AUV_NOINLINE static R rt_pt(R x) { return au::make_quantity_point<U>(x).in(U{}); }

    template <class A, class B>
    void expect(const char *op, R x, R y, const A &lib, const B &raw) {
        static_assert(std::is_same<A, B>::value, "result type of Quantity operator differs from the raw operator's");
        st.evals++;
        if (!same(lib, raw)) fail(op, x, y, std::string("library ") + val_s(lib) + " raw " + val_s(raw));
    }

    void roundtrip(R x) {
        g_crumb.inst = id; snprintf(g_crumb.what, sizeof g_crumb.what, "roundtrip R=%s x=%s", TypeName<R>::name(), val_s(x).c_str());
        R a = rt(x), b = rt_pt(x); st.evals += 2;
        R xe = canary ? R(x + 1) : x;
        if (!bits_eq(a, xe)) fail("roundtrip", x, x, "unit(x).in(unit) is not bit-identical to x");
        // the statement demands bit-identity for Quantity only; for points the value must be preserved (unit_pt(-0.0).in(unit)
        // is +0.0 today because the same-unit path adds a zero origin displacement)
        if (!(b == xe) && !(b != b && xe != xe)) fail("roundtrip_pt", x, x, "unit_pt(x).in(unit) != x");
        R d = au::Quantity<U, R>{}.in(U{}); if (!bits_eq(d, R{})) fail("default", x, x, "default construction != R{}");
    }

    void pair(R x, R y) {
        g_crumb.inst = id; snprintf(g_crumb.what, sizeof g_crumb.what, "ops R=%s x=%s y=%s", TypeName<R>::name(), val_s(x).c_str(), val_s(y).c_str());
        typedef RawUB<R> UB;
        auto q = au::make_quantity<U>(x), r = au::make_quantity<U>(y);
        ++n_pairs;
        expect("==", x, y, q == r, x == y); expect("!=", x, y, q != r, x != y);
        expect("<", x, y, q < r, x < y); expect("<=", x, y, q <= r, x <= y);
        expect(">", x, y, q > r, x > y); expect(">=", x, y, q >= r, x >= y);
        if (!UB::add(x, y)) { expect("+", x, y, (q + r).in(U{}), x + y); { auto t = q; t += r; R e = x; e += y; expect("+=", x, y, t.in(U{}), e); } }
        if (!UB::sub(x, y)) { expect("-", x, y, (q - r).in(U{}), x - y); { auto t = q; t -= r; R e = x; e -= y; expect("-=", x, y, t.in(U{}), e); } }
        if (!UB::mul(x, y)) { expect("q*s", x, y, (q * y).in(U{}), x * y); expect("s*q", x, y, (x * r).in(U{}), x * y); { auto t = q; t *= y; R e = x; e *= y; expect("*=", x, y, t.in(U{}), e); } }
        if (!UB::div(x, y)) { expect("q/s", x, y, (q / y).in(U{}), x / y); { auto t = q; t /= y; R e = x; e /= y; expect("/=", x, y, t.in(U{}), e); } }
        typedef std::integral_constant<bool, !(F5EXCL && sizeof(R) < 4 && std::is_integral<R>::value)> NotExcluded;
        modulo(x, y, q, r, std::integral_constant<bool, std::is_integral<R>::value && NotExcluded::value>{});
        unary(x, q, NotExcluded{});
        // non-trivial: sub-int rep, or special float operand, or narrowing differs
        bool nt = sizeof(R) < 4;
        if (std::is_floating_point<R>::value) { long double lx = (long double)x, ly = (long double)y; if (lx != lx || ly != ly || std::isinf(lx) || std::isinf(ly) || (lx == 0 && std::signbit(lx)) || (ly == 0 && std::signbit(ly))) { nt = true; ++n_special; } }
        if (nt) { uint64_t a = 0, b = 0; memcpy(&a, &x, sizeof(R) < 8 ? sizeof(R) : 8); memcpy(&b, &y, sizeof(R) < 8 ? sizeof(R) : 8); dn.add(mix(a) ^ mix(b + 0x9e37)); }
    }
    template <class Q>
    void modulo(R x, R y, Q q, Q r, std::true_type) {
        if (!RawUB<R>::div(x, y)) expect("%", x, y, (q % r).in(U{}), x % y);
    }
    template <class Q>
    void modulo(R, R, Q, Q, std::false_type) {}
    template <class Q>
    void unary(R x, Q q, std::true_type) {
        expect("unary+", x, x, (+q).in(U{}), +x);
        if (!RawUB<R>::neg(x)) expect("unary-", x, x, (-q).in(U{}), -x);
    }
    template <class Q>
    void unary(R, Q, std::false_type) {}

    // scalar operands whose type differs from the rep: q*s, s*q, q/s, q*=s, q/=s must be the raw mixed-type expressions
    template <class S>
    void mixed_scalar(R x, S s) {
        g_crumb.inst = id; snprintf(g_crumb.what, sizeof g_crumb.what, "mixed R=%s x=%s y=%s", TypeName<R>::name(), val_s(x).c_str(), val_s(s).c_str());
        auto q = au::make_quantity<U>(x);
        expect("q*s(mixed)", x, R(0), (q * s).in(U{}), x * s); expect("s*q(mixed)", x, R(0), (s * q).in(U{}), s * x);
        const bool div_ok = !(std::is_integral<decltype(x / s)>::value && s == S(0));
        if (div_ok) expect("q/s(mixed)", x, R(0), (q / s).in(U{}), x / s);
        // compound forms: the library refuses integral rep with floating scalar by design
        compound(x, s, div_ok, std::integral_constant<bool, !(std::is_integral<R>::value && std::is_floating_point<S>::value)>{});
    }
    template <class S> void compound(R x, S s, bool div_ok, std::true_type) {
        { auto t = au::make_quantity<U>(x); t *= s; R e = x; e *= s; expect("*=(mixed)", x, R(0), t.in(U{}), e); }
        if (div_ok) { auto t = au::make_quantity<U>(x); t /= s; R e = x; e /= s; expect("/=(mixed)", x, R(0), t.in(U{}), e); }
    }
    template <class S> void compound(R, S, bool, std::false_type) {}
    void mixed_all(R x, uint64_t raw) {
        // operands kept small enough that no raw signed overflow / float->int conversion UB can occur in the mixed expressions
        if (!(x == x)) return;
        long double ax = std::fabs((long double)x); if (!(ax <= 30000)) return;
        int k = int(raw % 2001) - 1000;
        mixed_scalar<int>(x, k); mixed_scalar<unsigned>(x, unsigned(k < 0 ? -k : k)); mixed_scalar<long long>(x, (long long)k * 7);
        mixed_scalar<unsigned short>(x, (unsigned short)(k < 0 ? -k : k)); mixed_scalar<signed char>(x, (signed char)(k % 100));
        mixed_scalar<double>(x, double(k) / 10); mixed_scalar<float>(x, float(k) / 8); mixed_scalar<long double>(x, (long double)k / 3);
        mixed_scalar<double>(x, 0.1); mixed_scalar<unsigned>(x, 2u); mixed_scalar<int>(x, 300); mixed_scalar<int>(x, -1);
    }

    // ---- value generation
    static R special(uint64_t i) {
        if (std::is_floating_point<R>::value) {
            const R sp[] = {R(0), R(-0.0), R(1), R(-1), std::numeric_limits<R>::infinity(), -std::numeric_limits<R>::infinity(), std::numeric_limits<R>::quiet_NaN(),
                            -std::numeric_limits<R>::quiet_NaN(), std::numeric_limits<R>::denorm_min(), std::numeric_limits<R>::min(), std::numeric_limits<R>::max(),
                            std::numeric_limits<R>::lowest(), std::numeric_limits<R>::epsilon(), R(0.5), R(3), R(1e10)};
            return sp[i % (sizeof sp / sizeof sp[0])];
        }
        const R sp[] = {R(0), R(1), R(2), R(3), R(7), std::numeric_limits<R>::max(), R(std::numeric_limits<R>::max() - 1), std::numeric_limits<R>::lowest(),
                        R(std::numeric_limits<R>::lowest() + 1), R(-1), R(-2), R(std::numeric_limits<R>::max() / 2), R(std::numeric_limits<R>::max() / 2 + 1), R(10), R(100), R(-7)};
        return sp[i % (sizeof sp / sizeof sp[0])];
    }
    static R from_bits(uint64_t raw) {
        R v; unsigned char b[sizeof(R)] = {0}; memcpy(b, &raw, sizeof(R) < 8 ? sizeof(R) : 8);
        if (sizeof(R) > 8) { uint16_t se = uint16_t(mix(raw) & 0xffff); memcpy(b + 8, &se, 2); if ((se & 0x7fff) != 0) b[7] |= 0x80; else b[7] &= 0x7f; }
        memcpy(&v, b, sizeof(R)); return v;
    }
    template <class X>
    static typename std::enable_if<std::is_integral<X>::value, X>::type nudge(X v, int d) { return X(uint64_t(int64_t(v)) + uint64_t(int64_t(d))); }
    template <class X>
    static typename std::enable_if<!std::is_integral<X>::value, X>::type nudge(X v, int d) { return X(v + X(d)); }
    static R draw(uint64_t cls, uint64_t raw) {
        switch (cls % 4) { case 0: return special(raw); case 1: return from_bits(raw); case 2: return R(int64_t(raw % 2001) - 1000) ; default: return nudge<R>(special(raw >> 8), int(raw % 5) - 2); }
    }
    static bool prop(void *self, const uint64_t *d, size_t) {
        Wrap13 *me = static_cast<Wrap13 *>(self);
        R x = draw(d[0], d[1]), y = draw(d[2], d[3]);
        uint64_t before = me->st.fails;
        me->roundtrip(x); me->pair(x, y); me->mixed_all(x, d[3]);
        return me->st.fails == before;
    }
    void run() {
        if (!g_args.want(id)) return;
        if (g_args.one) {
            R x = parse_val<R>(g_args.one_vals.at(0)), y = parse_val<R>(g_args.one_vals.at(1));
            if (g_args.one_vals.size() > 2) { x = from_bits(strtoull(g_args.one_vals[2].c_str(), nullptr, 0)); y = from_bits(strtoull(g_args.one_vals[3].c_str(), nullptr, 0)); }
            roundtrip(x); roundtrip(y); pair(x, y);
            for (uint64_t raw = 0; raw <= 2000 && !failed; ++raw) mixed_all(x, raw);   // the mixed-type scalar set is small: replay all of it
            printf("AUVONE %s\n", failed ? "fail" : "ok"); return;
        }
        bool exhaustive = false;
        if (sizeof(R) == 1) {
            exhaustive = true;
            for (int a = int(std::numeric_limits<R>::lowest()); a <= int(std::numeric_limits<R>::max()) && !failed; ++a) {
                roundtrip(R(a)); mixed_all(R(a), uint64_t(a) * 2654435761u);
                for (int b = int(std::numeric_limits<R>::lowest()); b <= int(std::numeric_limits<R>::max()) && !failed; ++b) pair(R(a), R(b));
            }
        } else {
            if (sizeof(R) == 2) { for (int a = int(std::numeric_limits<R>::lowest()); a <= int(std::numeric_limits<R>::max()) && !failed; ++a) roundtrip(R(a)); }
            if (std::is_same<R, float>::value) {
                // stratified (quick) / complete (thorough) sweep of float bit patterns
                uint64_t step = g_args.thorough ? 1 : 61;
                for (uint64_t b = g_args.shard; b < (1ull << 32) && !failed; b += step * g_args.nshards) roundtrip(from_bits(b));
                for (uint64_t e = 0; e < 256 && !failed; ++e) for (uint64_t m = 0; m < 23; ++m) { roundtrip(from_bits((e << 23) | (1ull << m))); roundtrip(from_bits((1ull << 31) | (e << 23) | (1ull << m))); }
            }
            for (uint64_t i = 0; i < 16 && !failed; ++i) for (uint64_t j = 0; j < 16 && !failed; ++j) { roundtrip(special(i)); pair(special(i), special(j)); mixed_all(special(i), j * 977 + i); }
            for (int v = -120; v <= 120 && !failed; ++v) mixed_all(R(v), uint64_t(v + 500) * 40503u);
            if (!failed) { uint64_t out[4]; rc_run(id, 4, &Wrap13::prop, this, out); }
        }
        st.inst = id; st.exhaustive = exhaustive; st.nontrivial = dn.n;
        char h[160]; snprintf(h, sizeof h, "\"pairs\":%" PRIu64 ",\"special_float_pairs\":%" PRIu64 ",\"canary\":%s,\"f5_excluded\":%s", n_pairs, n_special, canary ? "true" : "false", (F5EXCL && sizeof(R) < 4 && std::is_integral<R>::value) ? "true" : "false");
        st.hist = h; st.samples.push_back(std::string(TypeName<R>::name()) + " x " + "unit"); report(st);
    }
};

}  // namespace auv
