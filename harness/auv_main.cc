// Non-template part of the harness (compiled once per run, no rapidcheck, no Au).
#include "auv.hh"
#include <csignal>
#include <unistd.h>
extern "C" void __sanitizer_set_death_callback(void (*)(void)) __attribute__((weak));
namespace auv {
Crumb g_crumb = {"", ""};
Args g_args;
static void on_death() {
    fprintf(stdout, "AUVDEATH {\"inst\":\"%s\",\"what\":\"%s\"}\n", g_crumb.inst, g_crumb.what);
    fflush(stdout);
}
static void on_signal(int sig) {
    char buf[400];
    int n = snprintf(buf, sizeof buf, "\nAUVDEATH {\"inst\":\"%s\",\"what\":\"%s\",\"signal\":%d}\n", g_crumb.inst, g_crumb.what, sig);
    if (n > 0) { ssize_t r = write(1, buf, size_t(n)); (void)r; }
    _exit(128 + sig);
}
void install_death_callback() {
    // sanitizers are run with abort_on_error=1: the abort lands here, so the case being evaluated is always reported
    signal(SIGABRT, on_signal); signal(SIGFPE, on_signal); signal(SIGILL, on_signal);
    if (__sanitizer_set_death_callback) __sanitizer_set_death_callback(on_death);
}
static std::string esc(const std::string &s) {
    std::string o; for (char c : s) { if (c == '"' || c == '\\') o += '\\'; if (c == '\n') { o += "\\n"; continue; } o += c; } return o;
}
void report(const Stats &s) {
    std::string smp;
    for (size_t i = 0; i < s.samples.size(); ++i) { if (i) smp += ","; smp += "\"" + esc(s.samples[i]) + "\""; }
    printf("AUV {\"inst\":\"%s\",\"evals\":%" PRIu64 ",\"nt\":%" PRIu64 ",\"fails\":%" PRIu64
           ",\"exhaustive\":%s,\"hist\":{%s},\"samples\":[%s]}\n",
           s.inst, s.evals, s.nontrivial, s.fails, s.exhaustive ? "true" : "false", s.hist.c_str(), smp.c_str());
    fflush(stdout);
}
void report_fail(const char *inst, const std::string &input_json, const std::string &msg) {
    printf("AUVFAIL {\"inst\":\"%s\",\"input\":%s,\"msg\":\"%s\"}\n", inst, input_json.c_str(), esc(msg).c_str());
    fflush(stdout);
}
Args parse_args(int argc, char **argv) {
    Args a;
    for (int i = 1; i < argc; ++i) {
        std::string s = argv[i];
        if (s == "--only" && i + 1 < argc) { a.only.push_back(argv[++i]); }
        else if (s == "--skip" && i + 1 < argc) { a.skip.push_back(argv[++i]); }
        else if (s == "--one" && i + 1 < argc) { a.one = true; a.one_inst = argv[++i]; while (i + 1 < argc) a.one_vals.push_back(argv[++i]); }
        else if (s == "--rc-cases" && i + 1 < argc) { a.rc_cases = strtoull(argv[++i], nullptr, 10); }
        else if (s == "--thorough") { a.thorough = true; }
        else if (s == "--shard" && i + 2 < argc) { a.shard = unsigned(atoi(argv[++i])); a.nshards = unsigned(atoi(argv[++i])); }
    }
    return a;
}
}  // namespace auv
