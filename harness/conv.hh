// C03 / C04: same-rep conversions and their runtime checkers vs an exact 128-bit oracle.
// Included by generated TUs after "au/au.hh".
#pragma once
#include "auv.hh"

namespace auv {

// oracle integer type: signed 128-bit, except for uint64_t (x*N may need all 128 unsigned bits)
template <class T, bool IsU64 = (!std::is_signed<T>::value && sizeof(T) == 8)>
struct Wide { typedef i128 type; };
template <class T>
struct Wide<T, true> { typedef u128 type; };

template <class T>
using Promoted = decltype(std::declval<T>() * std::declval<T>());

enum Cat { INT_MUL = 0, INT_DIV = 1, RATIONAL = 2 };

// ---- opaque calls into the library (noinline: the optimiser must not see through the loop)
template <class T, class Src, class Dst>
AUV_NOINLINE bool lib_ovf(T x) { return au::will_conversion_overflow(au::make_quantity<Src>(x), Dst{}); }
template <class T, class Src, class Dst>
AUV_NOINLINE bool lib_trunc(T x) { return au::will_conversion_truncate(au::make_quantity<Src>(x), Dst{}); }
template <class T, class Src, class Dst>
AUV_NOINLINE bool lib_lossy(T x) { return au::is_conversion_lossy(au::make_quantity<Src>(x), Dst{}); }
template <class T, class Src, class Dst>
AUV_NOINLINE T lib_coerce_in(T x) { return au::make_quantity<Src>(x).coerce_in(Dst{}); }
template <class T, class Src, class Dst>
AUV_NOINLINE T lib_coerce_as(T x) { return au::make_quantity<Src>(x).coerce_as(Dst{}).in(Dst{}); }
template <class T, class Src, class Dst, bool Permit>
struct LibIn { static T in(T x) { return x; } static T as(T x) { return x; } };
template <class T, class Src, class Dst>
struct LibIn<T, Src, Dst, true> {
    AUV_NOINLINE static T in(T x) { return au::make_quantity<Src>(x).in(Dst{}); }
    AUV_NOINLINE static T as(T x) { return au::make_quantity<Src>(x).as(Dst{}).in(Dst{}); }
};

struct ConvSpec {
    const char *id;
    uint64_t N, D;   // factor N/D, coprime
    int cat;         // Cat
    bool canary;     // deliberately wrong oracle (must be reported)
    bool all32;      // exhaustive over 2^32 (thorough)
    unsigned slice, nslices;   // with all32: this instance record sweeps slice k of n equal parts of the 2^32 values (0 = whole range)
};

template <class T, class Src, class Dst, bool Permit>
struct IntConv {
    typedef typename Wide<T>::type W;
    typedef Promoted<T> P;
    ConvSpec sp;
    Stats c03, c04;
    std::string id3, id4;
    Distinct d3, d4;
    uint64_t n_ovf_t = 0, n_ovf_f = 0, n_tr_t = 0, n_tr_f = 0, n_cleared = 0, n_near = 0;
    std::vector<W> bounds;
    W minT, maxT, minP, maxP, N, D, clo, chi;
    bool failed = false, failed3 = false;

    static W fdiv(W a, W b) {  // floor division, b > 0
        W q = a / b; if ((a % b != 0) && (a < 0)) --q; return q;
    }
    static W cdiv(W a, W b) {  // ceil division, b > 0
        W q = a / b; if ((a % b != 0) && (a > 0)) ++q; return q;
    }
    void addb(W v) {
        if (v < minT) v = minT; if (v > maxT) v = maxT;
        bounds.push_back(v);
    }
    explicit IntConv(const ConvSpec &s) : sp(s), d3(18), d4(18) {
        id3 = std::string(s.id); id4 = std::string(s.id);
        minT = W(std::numeric_limits<T>::lowest()); maxT = W(std::numeric_limits<T>::max());
        minP = W(std::numeric_limits<P>::lowest()); maxP = W(std::numeric_limits<P>::max());
        N = W(s.N); D = W(s.D);
        if (s.canary) N = N + 1;
        // cleared range (no overflow anywhere)
        W lo_num = minT, hi_num = maxT;  // bounds on x*N
        if (sp.cat == RATIONAL) {
            // x*N in P and x*N/D in T   (maxT*D may exceed W only if D ~ 2^64 and T 64-bit: guard)
            W tD_hi = (D != 0 && maxT > (std::numeric_limits<W>::max() / D)) ? std::numeric_limits<W>::max() : maxT * D;
            W tD_lo = minT == 0 ? W(0) : ((D != 0 && (W(0) - minT) > (std::numeric_limits<W>::max() / D)) ? std::numeric_limits<W>::lowest() : minT * D);
            hi_num = maxP < tD_hi ? maxP : tD_hi;
            lo_num = minP > tD_lo ? minP : tD_lo;
        } else if (sp.cat == INT_DIV) {
            hi_num = maxT; lo_num = minT;  // N == 1
        }
        chi = fdiv(hi_num, N); clo = (lo_num == 0) ? W(0) : cdiv(lo_num, N);
        if (chi > maxT) chi = maxT; if (clo < minT) clo = minT;
        addb(0); addb(minT); addb(maxT); addb(chi); addb(clo);
        addb(maxT / N); addb(minT / N); addb(maxP / N); addb(minP / N);
        addb(D); if (std::is_signed<T>::value) addb(W(0) - D);
        addb(fdiv(chi, D) * D); addb(cdiv(clo, D) * D);
        if (maxT / D >= 1) { addb((maxT / D) * D); addb((minT / D) * D); }
        addb(W(1) << (sizeof(T) * 8 - 2));
    }

    static std::string in_json(const ConvSpec &sp, T x) {
        return std::string("{\"T\":\"") + TypeName<T>::name() + "\",\"N\":" + to_s(u128(sp.N)) + ",\"D\":" +
               to_s(u128(sp.D)) + ",\"x\":\"" + val_s(x) + "\"}";
    }
    void fail(T x, const std::string &msg) {
        if (!failed) report_fail(sp.id, in_json(sp, x), msg);
        failed = true; c04.fails++;
    }

    // returns true when everything agreed
    bool check(T x) {
        g_crumb.inst = sp.id;
        snprintf(g_crumb.what, sizeof g_crumb.what, "T=%s N=%s D=%s x=%s", TypeName<T>::name(),
                 to_s(u128(sp.N)).c_str(), to_s(u128(sp.D)).c_str(), val_s(x).c_str());
        const W xw = W(x);
        const W xn = xw * N;  // |x| <= 2^63 (signed) / < 2^64 (unsigned), N < 2^64: fits W
        const bool fitsP = (xn >= minP && xn <= maxP);
        const bool trunc_exp = (xn % D) != 0;
        const W q = xn / D;
        bool ovf_exp;
        if (sp.cat == INT_MUL) ovf_exp = !(xn >= minT && xn <= maxT);
        else if (sp.cat == INT_DIV) ovf_exp = false;
        else {
            // exact rational comparison  x*N/D in [minT, maxT]  <=>  q in range and, at the edges, no excess
            bool inT = (q >= minT && q <= maxT);
            if (inT && (xn % D) != 0) {  // q truncated toward zero: exact value beyond q, away from 0
                if (q == maxT && xn > 0) inT = false;
                if (q == minT && xn < 0) inT = false;
            }
            ovf_exp = !fitsP || !inT;
        }
        const bool o = lib_ovf<T, Src, Dst>(x);
        const bool t = lib_trunc<T, Src, Dst>(x);
        const bool l = lib_lossy<T, Src, Dst>(x);
        c04.evals++;
        (o ? n_ovf_t : n_ovf_f)++; (t ? n_tr_t : n_tr_f)++;
        // C04 non-trivial: within 3 of a threshold, or (neighbour of) a multiple of D
        bool near = false;
        for (size_t i = 0; i < bounds.size(); ++i) {
            W d = xw > bounds[i] ? xw - bounds[i] : bounds[i] - xw;
            if (d <= 3) { near = true; break; }
        }
        if (!near && D > 1 && xw != 0) {
            W r = xw % D; if (r < 0) r += D;
            near = (r == 0 || r == 1 || r == D - 1);
        }
        if (near && !(sp.N == 1 && sp.D == 1)) { d4.add(uint64_t(x)); n_near++; }
        bool ok = true;
        if (o != ovf_exp) { fail(x, std::string("will_conversion_overflow=") + val_s(o) + " expected " + val_s(ovf_exp) + " (x*N=" + to_s(xn) + ")"); ok = false; }
        if (t != trunc_exp) { fail(x, std::string("will_conversion_truncate=") + val_s(t) + " expected " + val_s(trunc_exp) + " (x*N mod D=" + to_s(W(xn % D)) + ")"); ok = false; }
        if (l != (o || t)) { fail(x, "is_conversion_lossy != truncate || overflow"); ok = false; }
        // C03: cleared by the library => exact, UB-free
        if (!l) {
            c03.evals++;
            n_cleared++;
            const bool exact_ok = fitsP && !trunc_exp && q >= minT && q <= maxT;
            if (!exact_ok) {
                if (!failed3) report_fail(sp.id, in_json(sp, x), "C03: library cleared a conversion whose exact result/intermediate is not representable");
                failed3 = true; c03.fails++; return false;
            }
            const T r1 = lib_coerce_in<T, Src, Dst>(x);
            const T r2 = lib_coerce_as<T, Src, Dst>(x);
            const T r3 = LibIn<T, Src, Dst, Permit>::in(x);
            const T r4 = LibIn<T, Src, Dst, Permit>::as(x);
            if (W(r1) != q || W(r2) != q || (Permit && (W(r3) != q || W(r4) != q))) {
                if (!failed3) report_fail(sp.id, in_json(sp, x), std::string("C03: coerce_in=") + val_s(r1) + " coerce_as=" + val_s(r2) + " exact=" + to_s(q));
                failed3 = true; c03.fails++; ok = false;
            }
            if (!(sp.N == 1 && sp.D == 1) && x != 0) d3.add(uint64_t(x));
        }
        return ok;
    }

    T clampT(W v) const { if (v < minT) v = minT; if (v > maxT) v = maxT; return T(v); }

    T from_draws(const uint64_t *d) const {
        const uint64_t cls = d[0] % 6, idx = d[1], raw = d[2];
        switch (cls) {
            case 0: return clampT(bounds[idx % bounds.size()] + W(int(raw % 7) - 3));
            case 1: return T(raw);
            case 2: return clampT(W(raw % 8192) - (std::is_signed<T>::value ? 4096 : 0));
            case 3: return clampT((bounds[idx % bounds.size()] / D + W(int(raw % 3) - 1)) * D);
            case 4: { W span = chi - clo + 1; return clampT(clo + W(u128(raw) % u128(span > 0 ? span : 1))); }
            default: {
                W klo = cdiv(clo, D), khi = fdiv(chi, D); W span = khi - klo + 1;
                return clampT((klo + W(u128(raw) % u128(span > 0 ? span : 1))) * D);
            }
        }
    }
    static bool prop(void *self, const uint64_t *d, size_t) {
        IntConv *me = static_cast<IntConv *>(self);
        return me->check(me->from_draws(d));
    }

    void run() {
        if (!g_args.want(sp.id)) return;
        if (g_args.one) {
            bool ok = check(parse_val<T>(g_args.one_vals.at(0)));
            printf("AUVONE %s\n", ok && !failed && !failed3 ? "ok" : "fail");
            return;
        }
        bool exhaustive = false;
        if (sizeof(T) <= 2 || (sizeof(T) == 4 && sp.all32 && g_args.thorough)) {
            exhaustive = true;
            W lo = minT, hi = maxT;
            if (sizeof(T) == 4 && sp.nslices > 1) {   // a balanced part of the sweep: the other parts run in the other shard processes
                const W part = (W(1) << 32) / W(sp.nslices);
                lo = minT + part * W(sp.slice);
                if (sp.slice + 1 < sp.nslices) hi = lo + part - 1;
            }
            for (W v = lo; v <= hi; ++v) { check(T(v)); if (failed && failed3) break; if (failed && sp.canary) break; }
        } else {
            // boundary-complete neighbourhoods first (enumerated), then rapidcheck draws
            for (size_t i = 0; i < bounds.size() && !(failed && failed3); ++i)
                for (int k = -3; k <= 3 && !(failed && failed3); ++k) {
                    check(clampT(bounds[i] + k));
                    check(clampT((bounds[i] / D + k) * D));
                }
            if (!failed && !failed3) {
                uint64_t out[3] = {0, 0, 0};
                rc_run(sp.id, 3, &IntConv::prop, this, out);
            }
        }
        char h[256];
        snprintf(h, sizeof h, "\"ovf_true\":%" PRIu64 ",\"ovf_false\":%" PRIu64 ",\"trunc_true\":%" PRIu64
                 ",\"trunc_false\":%" PRIu64 ",\"cleared\":%" PRIu64 ",\"near_threshold\":%" PRIu64 ",\"canary\":%s",
                 n_ovf_t, n_ovf_f, n_tr_t, n_tr_f, n_cleared, n_near, sp.canary ? "true" : "false");
        c04.inst = sp.id; c04.exhaustive = exhaustive; c04.nontrivial = d4.n; c04.hist = h;
        c04.hist += ",\"c03_evals\":" + to_s(u128(c03.evals)) + ",\"c03_nt\":" + to_s(u128(d3.n)) + ",\"c03_fails\":" + to_s(u128(c03.fails));
        c04.samples.push_back(std::string(TypeName<T>::name()) + " x*" + to_s(u128(sp.N)) + "/" + to_s(u128(sp.D)));
        report(c04);
    }
};

// ---------------------------------------------------------------------------------------------
// floating reps (C04 second half): overflow reported beyond max, never safely below; truncate false
template <class T, class Src, class Dst>
struct FloatConv {
    const char *id; long double f; bool canary;  // f = factor value (exact enough: rounded to long double)
    Stats st; Distinct dn; bool failed = false;
    uint64_t n_t = 0, n_f = 0, n_band = 0, n_special = 0;
    FloatConv(const char *i, long double ff, bool c) : id(i), f(ff), canary(c), dn(18) {}

    static T bits_to(uint64_t raw) {
        T v; unsigned char b[sizeof(T)] = {0};
        memcpy(b, &raw, sizeof(T) < 8 ? sizeof(T) : 8);
        if (sizeof(T) > 8) { uint16_t se = uint16_t(mix(raw) & 0xffff); memcpy(b + 8, &se, 2); b[7] |= 0x80; }
        memcpy(&v, b, sizeof(T)); return v;
    }
    // compare |x|*f with max(T) using exponents (works for long double too)
    // returns +1 clearly above (beyond band), -1 clearly below, 0 in band
    int side(T x) const {
        long double ax = std::fabs((long double)x);
        if (ax == 0) return -1;
        int ex, ef, em; long double mx = frexpl(ax, &ex), mf = frexpl(f, &ef), mm = frexpl((long double)std::numeric_limits<T>::max(), &em);
        long double prod = mx * mf; int ep = ex + ef;     // value = prod * 2^ep, prod in [0.25,1)
        if (ep - em > 2) return +1;
        if (ep - em < -2) return -1;
        long double ratio = std::ldexp(prod / mm, ep - em);   // |x|*f / max, exact to ~1e-19
        long double eps = 16 * (long double)std::numeric_limits<T>::epsilon();
        if (ratio > 1 + eps) return +1;
        if (ratio < 1 - eps) return -1;
        return 0;
    }
    bool check(T x) {
        g_crumb.inst = id; snprintf(g_crumb.what, sizeof g_crumb.what, "T=%s f=%La x=%s", TypeName<T>::name(), f, val_s(x).c_str());
        auto q = au::make_quantity<Src>(x);
        const bool o = au::will_conversion_overflow(q, Dst{});
        const bool t = au::will_conversion_truncate(q, Dst{});
        const bool l = au::is_conversion_lossy(q, Dst{});
        st.evals++;
        bool ok = true;
        std::string why;
        if (t) { ok = false; why = "will_conversion_truncate true for floating rep"; }
        if (l != (o || t)) { ok = false; why = "is_conversion_lossy != truncate||overflow"; }
        if (std::isnan(x)) { n_special++; }
        else if (std::isinf(x)) { n_special++; /* inf*f is not finite: 'finite value' clause does not apply */ }
        else {
            int s = side(x);
            if (canary) s = -s;
            if (s == 0) n_band++;
            if (s > 0 && !o) { ok = false; why = "overflow not reported for finite value whose scaled magnitude exceeds max"; }
            if (s < 0 && o) { ok = false; why = "overflow reported for value safely below max"; }
            if (s == 0 || std::fabs((long double)x) * f > (long double)std::numeric_limits<T>::max() / 4) {
                uint64_t k = 0; memcpy(&k, &x, sizeof(T) < 8 ? sizeof(T) : 8); dn.add(k);
            }
        }
        (o ? n_t : n_f)++;
        if (!ok) {
            if (!failed) report_fail(id, std::string("{\"T\":\"") + TypeName<T>::name() + "\",\"f\":\"" + val_s(f) + "\",\"x\":\"" + val_s(x) + "\"}", why);
            failed = true; st.fails++;
        }
        return ok;
    }
    T from_draws(const uint64_t *d) const {
        const uint64_t cls = d[0] % 5, idx = d[1], raw = d[2];
        const T mx = std::numeric_limits<T>::max();
        switch (cls) {
            case 0: {  // neighbours of max/f and lowest/f
                T b = T((long double)mx / f); if (std::isinf(b)) b = mx;
                int steps = int(raw % 33) - 16;
                for (int i = 0; i < (steps < 0 ? -steps : steps); ++i) b = std::nextafter(b, steps < 0 ? T(0) : std::numeric_limits<T>::infinity());
                return (idx & 1) ? T(-b) : b;
            }
            case 1: {  // powers of two +- 1ulp
                int e = int(idx % uint64_t(std::numeric_limits<T>::max_exponent - std::numeric_limits<T>::min_exponent + 60)) + std::numeric_limits<T>::min_exponent - 60;
                T b = std::ldexp(T(1), e); int k = int(raw % 3) - 1;
                if (k) b = std::nextafter(b, k < 0 ? T(0) : std::numeric_limits<T>::infinity());
                return (raw & 8) ? T(-b) : b;
            }
            case 2: {
                const T sp[] = {T(0), T(-0.0), std::numeric_limits<T>::infinity(), -std::numeric_limits<T>::infinity(),
                                std::numeric_limits<T>::quiet_NaN(), std::numeric_limits<T>::denorm_min(), std::numeric_limits<T>::min(), mx, -mx, T(1), T(-1)};
                return sp[idx % (sizeof sp / sizeof sp[0])];
            }
            case 3: return bits_to(raw);
            default: {  // scaled fraction of max/f
                long double b = (long double)mx / f; if (std::isinf(b) || b > (long double)mx) b = (long double)mx;
                long double fr = (long double)(raw % 1000003) / 1000003.0L;
                return T(b * (0.5L + fr));
            }
        }
    }
    static bool prop(void *self, const uint64_t *d, size_t) { FloatConv *me = static_cast<FloatConv *>(self); return me->check(me->from_draws(d)); }
    void run() {
        if (!g_args.want(id)) return;
        if (g_args.one) { bool ok = check(parse_val<T>(g_args.one_vals.at(0))); printf("AUVONE %s\n", ok ? "ok" : "fail"); return; }
        for (uint64_t c = 0; c < 5 && !failed; ++c)
            for (uint64_t i = 0; i < 40 && !failed; ++i) { uint64_t d[3] = {c, i, i * 2654435761u}; check(from_draws(d)); }
        if (!failed) { uint64_t out[3]; int r = rc_run(id, 3, &FloatConv::prop, this, out); (void)r; }
        char h[200]; snprintf(h, sizeof h, "\"ovf_true\":%" PRIu64 ",\"ovf_false\":%" PRIu64 ",\"in_band\":%" PRIu64 ",\"special\":%" PRIu64 ",\"canary\":%s", n_t, n_f, n_band, n_special, canary ? "true" : "false");
        st.inst = id; st.nontrivial = dn.n; st.hist = h;
        st.samples.push_back(std::string(TypeName<T>::name()) + " f=" + val_s(f));
        report(st);
    }
};

}  // namespace auv
