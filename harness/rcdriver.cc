// Type-erased rapidcheck driver: all random choices (and shrinking) happen here.
#include <rapidcheck.h>
#include "auv.hh"
namespace auv {
int rc_run(const char *name, size_t ndraws, PropFn fn, void *ctx, uint64_t *out) {
    (void)name;
    std::vector<uint64_t> failing;
    // full-width draws regardless of rapidcheck's size parameter (inRange/arbitrary collapse at
    // small sizes); shrinking towards 0 still applies to each draw.
    auto gen = rc::gen::container<std::vector<uint64_t>>(
        ndraws, rc::gen::resize(rc::kNominalSize, rc::gen::arbitrary<uint64_t>()));
    const auto result = rc::detail::checkTestable([&] {
        auto v = *gen;
        bool ok = fn(ctx, v.data(), v.size());
        if (!ok) failing = v;
        RC_ASSERT(ok);
    });
    if (result.template is<rc::detail::SuccessResult>()) return 0;
    if (result.template is<rc::detail::FailureResult>()) {
        // re-run prop on the minimal counterexample so that 'failing' holds the shrunk draws
        for (size_t i = 0; i < ndraws && i < failing.size(); ++i) out[i] = failing[i];
        return 1;
    }
    return 2;
}
}  // namespace auv
