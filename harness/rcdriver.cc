// Type-erased rapidcheck driver: all random choices (and shrinking) happen here.
#include <rapidcheck.h>
#include "auv.hh"
namespace auv {
int rc_run(const char *name, size_t ndraws, PropFn fn, void *ctx, uint64_t *out) {
    std::vector<uint64_t> failing;
    // full-width draws regardless of rapidcheck's size parameter (inRange/arbitrary collapse at
    // small sizes); shrinking towards 0 still applies to each draw.
    auto gen = rc::gen::container<std::vector<uint64_t>>(
        ndraws, rc::gen::resize(rc::kNominalSize, rc::gen::arbitrary<uint64_t>()));
    // rapidcheck keeps a record per successful case, so one long run costs memory proportional to the number of cases; the
    // requested number of cases (RC_PARAMS max_success) is therefore spent in chunks, each with its own derived seed.
    const auto base = rc::detail::configuration().testParams;
    const long total = base.maxSuccess;
    const long chunk = 20000;
    long done = 0; uint64_t k = 0;
    while (done < total) {
        auto params = base;
        params.maxSuccess = int(total - done < chunk ? total - done : chunk);
        params.seed = base.seed + k * 0x9e3779b97f4a7c15ULL;
        rc::detail::TestMetadata md; md.id = name; md.description = name;
        const auto result = rc::detail::checkTestable([&] {
            auto v = *gen;
            bool ok = fn(ctx, v.data(), v.size());
            if (!ok) failing = v;
            RC_ASSERT(ok);
        }, md, params);
        if (result.template is<rc::detail::FailureResult>()) {
            // the last failing invocation is the minimal (shrunk) counterexample
            for (size_t i = 0; i < ndraws && i < failing.size(); ++i) out[i] = failing[i];
            return 1;
        }
        if (!result.template is<rc::detail::SuccessResult>()) return 2;
        done += params.maxSuccess; ++k;
    }
    return 0;
}
}  // namespace auv
