// C05: rep-changing conversions (as<T>/coerce_as<T>/in<T>/rep_cast) and the <T> checkers, all rep pairs.
// Included after "au/au.hh"; C++17.
#pragma once
#include "auv.hh"

namespace auv {

template <class A>
using Prom = decltype(std::declval<A>() * std::declval<A>());

template <class X> struct WideOf { typedef typename std::conditional<(!std::is_signed<X>::value && sizeof(X) == 8), u128, i128>::type type; };

template <class R, class T, class Src, class Dst>
struct RepConv {
    typedef std::common_type_t<R, T> Cm;
    const char *id; uint64_t N, D; int cat; bool canary; bool f9_known = false; uint64_t n_f9_excluded = 0;
    Stats st; Distinct dn; bool failed = false;
    uint64_t n_cleared = 0, n_ovf = 0, n_special = 0, n_near = 0, n_o1_skipped = 0;
    RepConv(const char *i, uint64_t n, uint64_t d, int c, bool cy) : id(i), N(n), D(d), cat(c), canary(cy), dn(18) {}

    std::string js(R x) const {
        return std::string("{\"R\":\"") + TypeName<R>::name() + "\",\"T\":\"" + TypeName<T>::name() + "\",\"N\":" + to_s(u128(N)) + ",\"D\":" + to_s(u128(D)) + ",\"x\":\"" + val_s(x) + "\"}";
    }
    void fail(R x, const std::string &m) { if (!failed) report_fail(id, js(x), m); failed = true; st.fails++; }

    AUV_NOINLINE static bool l_ovf(R x) { return au::will_conversion_overflow<T>(au::make_quantity<Src>(x), Dst{}); }
    AUV_NOINLINE static bool l_trunc(R x) { return au::will_conversion_truncate<T>(au::make_quantity<Src>(x), Dst{}); }
    AUV_NOINLINE static bool l_lossy(R x) { return au::is_conversion_lossy<T>(au::make_quantity<Src>(x), Dst{}); }
    AUV_NOINLINE static T l_in(R x) { return au::make_quantity<Src>(x).template coerce_in<T>(Dst{}); }
    AUV_NOINLINE static T l_as(R x) { return au::make_quantity<Src>(x).template coerce_as<T>(Dst{}).in(Dst{}); }
    AUV_NOINLINE static T l_as2(R x) { return au::make_quantity<Src>(x).template as<T>(Dst{}).in(Dst{}); }
    AUV_NOINLINE static T l_in2(R x) { return au::make_quantity<Src>(x).template in<T>(Dst{}); }

    template <class X, class V> static bool fits(V v) { return v >= V(std::numeric_limits<X>::lowest()) && v <= V(std::numeric_limits<X>::max()); }

    // ---------- integral source, integral target: exact staged oracle
    bool check_int_int(R x) {
        typedef typename WideOf<Cm>::type W;   // Cm unsigned 64 => u128, else i128
        bool stage_out = false; const char *which = "";
        // stage 1: cast to Common
        bool neg_into_unsigned = std::is_signed<R>::value && !std::is_signed<Cm>::value && x < 0;
        W q = 0; bool divisible = true;
        if (neg_into_unsigned || !(i128(x) < 0 ? fits<Cm>(i128(x)) : (u128(x) <= u128(std::numeric_limits<Cm>::max())))) { stage_out = true; which = "cast to common"; }
        else {
            W xc = W(x); W n = W(N) + (canary ? 1 : 0), d = W(D);
            W xn = xc * n;   // |x| < 2^64, N < 2^64 (u128) or |x| <= 2^63, N < 2^63 (i128)
            typedef Prom<Cm> P;
            if (cat == 0) { if (!fits<Cm>(xn)) { stage_out = true; which = "integer multiply"; } q = xn; }
            else if (cat == 1) { q = xc / d; divisible = (xc % d) == 0; }
            else {
                if (!fits<P>(xn)) { stage_out = true; which = "promoted product"; }
                q = xn / d; divisible = (xn % d) == 0;
                bool inC = fits<Cm>(q);
                if (inC && !divisible) { if (q == W(std::numeric_limits<Cm>::max()) && xn > 0) inC = false; if (std::is_signed<Cm>::value && q == W(std::numeric_limits<Cm>::lowest()) && xn < 0) inC = false; }
                if (!inC && !stage_out) { stage_out = true; which = "scaled value in common"; }
            }
            // stage 3: cast to T
            if (!stage_out) {
                bool fitT = (q < 0) ? (std::is_signed<T>::value && i128(q) >= i128(std::numeric_limits<T>::lowest())) : (u128(q) <= u128(std::numeric_limits<T>::max()));
                if (!fitT) { stage_out = true; which = "cast to target"; }
            }
        }
        const bool o = l_ovf(x);
        st.evals++;
        bool ok = true;
        if (o) ++n_ovf;
        if (o && !stage_out) { fail(x, "will_conversion_overflow<T> true but every stage's exact value is in range"); ok = false; }
        if (!o) {
            // O1: the truncation checker scales before any overflow check; only call it when overflow was not reported
            const bool t = l_trunc(x), l = l_lossy(x);
            if (l != (t || o)) { fail(x, "is_conversion_lossy<T> != truncate<T> || overflow<T>"); ok = false; }
            if (!l) {
                ++n_cleared;
                if (stage_out) { fail(x, std::string("cleared by is_conversion_lossy<T> although stage '") + which + "' leaves its range"); return false; }
                if (!divisible) { fail(x, "cleared by is_conversion_lossy<T> although the exact result is not an integer"); return false; }
                T r1 = l_in(x), r2 = l_as(x), r3 = l_as2(x), r4 = l_in2(x);
                bool eq = (q < 0) ? (i128(r1) == i128(q) && i128(r2) == i128(q) && i128(r3) == i128(q) && i128(r4) == i128(q))
                                  : (r1 >= 0 && u128(r1) == u128(q) && u128(r2) == u128(q) && u128(r3) == u128(q) && u128(r4) == u128(q));
                if (!eq) { fail(x, std::string("coerce_in<T>=") + val_s(r1) + " exact=" + to_s(q)); ok = false; }
                if (x != 0 && !(N == 1 && D == 1 && std::is_same<R, T>::value)) dn.add(uint64_t(x));
            }
        } else ++n_o1_skipped;
        return ok;
    }

    // ---------- integral source, floating target (Common floating): 4 ulp, overflow only if really beyond max
    bool check_int_flt(R x) {
        long double f = (long double)N / (long double)D; if (canary) f *= 2;
        long double e = (long double)x * f;
        const bool o = l_ovf(x); st.evals++;
        long double mx = (long double)std::numeric_limits<T>::max();
        bool ok = true;
        if (o) { ++n_ovf; if (std::fabs(e) < mx * (1 - 1e-6L)) { fail(x, "overflow<T> reported for integral source although the scaled value is well inside the floating target"); ok = false; } }
        else {
            const bool l = l_lossy(x);
            if (!l) {
                ++n_cleared;
                T r = l_in(x), r2 = l_as(x);
                long double tol = 4 * std::fabs(e) * (long double)std::numeric_limits<T>::epsilon() + (long double)std::numeric_limits<T>::denorm_min();
                if (!(std::fabs((long double)r - e) <= tol) || !bits_equal(r, r2)) { fail(x, std::string("coerce_in<T>=") + val_s(r) + " exact~" + val_s(e)); ok = false; }
                if (x != 0) dn.add(uint64_t(x));
            }
        }
        return ok;
    }
    template <class X> static bool bits_equal(X a, X b) { return memcmp(&a, &b, sizeof(X) > 10 ? 10 : sizeof(X)) == 0 || (a != a && b != b); }

    // ---------- floating source
    bool check_flt(R x) {
        const bool special = (x != x) || std::isinf(x);
        if (special) ++n_special;
        // library's own scaled value in the common (floating) type
        Cm c = au::make_quantity<Src>(Cm(x)).coerce_in(Dst{});
        const bool o = l_ovf(x), t = l_trunc(x), l = l_lossy(x);
        st.evals++;
        bool ok = true;
        if (l != (o || t)) { fail(x, "is_conversion_lossy<T> != truncate<T> || overflow<T>"); ok = false; }
        if (std::is_integral<T>::value) {
            // castable <=> finite, and trunc(c) within T's range:  -2^digits-ish lower bound, strictly below 2^digits
            long double cl = (long double)c;
            long double hi = std::ldexp(1.0L, std::numeric_limits<T>::digits);           // 2^digits: first value that does not fit
            long double lo = std::is_signed<T>::value ? -hi : 0.0L;                        // lowest(T) (exactly representable)
            bool castable = !(c != c) && !std::isinf(c) && cl < hi && (std::is_signed<T>::value ? cl > lo - 1 : cl > -1.0L);
            if (canary) castable = !castable;
            bool integral_valued = castable && std::trunc(cl) == cl;
            if (!castable) {
                if (!l) { fail(x, std::string("value that cannot be cast to the integral target is not reported lossy (scaled=") + val_s(c) + ")"); ok = false; }
            }
            if (!l) {
                ++n_cleared;
                if (castable && !integral_valued) { fail(x, "cleared although the scaled value is not an integer"); ok = false; }
                if (castable && integral_valued) {
                    T r = l_in(x), r2 = l_as(x), r3 = l_in2(x);
                    T e = static_cast<T>(c);
                    if (r != e || r2 != e || r3 != e) { fail(x, std::string("coerce_in<T>=") + val_s(r) + " but static_cast<T>(scaled)=" + val_s(e)); ok = false; }
                }
            }
            long double a = std::fabs(cl);
            if (special || (a > hi / 2 && a < hi * 2)) { ++n_near; uint64_t k = 0; memcpy(&k, &x, sizeof(R) < 8 ? sizeof(R) : 8); dn.add(k); }
        } else {
            // floating target: cleared => finite, in range, value-preserving cast of the computed common value
            long double mx = (long double)std::numeric_limits<T>::max();
            long double a = std::fabs((long double)c);
            if (!special && !(c != c)) {
                if (a > mx * (1 + 1e-6L) && !std::isinf(c) && !o) { fail(x, "finite scaled value beyond the floating target's max not reported as overflow"); ok = false; }
                if (a < mx * (1 - 1e-6L) && o) {
                    // the same-rep stage in Common may legitimately overflow first: only complain if Common could hold it
                    fail(x, "overflow<T> reported although the scaled value is well inside the floating target"); ok = false;
                }
            }
            if (!l && !special) {
                ++n_cleared;
                T r = l_in(x); T e = static_cast<T>(c);
                if (!bits_equal(r, e)) { fail(x, std::string("coerce_in<T>=") + val_s(r) + " but static_cast<T>(scaled)=" + val_s(e)); ok = false; }
                if (std::isinf(r) || r != r) {
                    // known finding F9 (when listed): the floating overflow check compares x with max/f, a rounded quotient, so a value
                    // within an ulp of that threshold is cleared although x*f rounds to infinity.  Excluded class: |x| within 8 eps of max/f.
                    long double fv = (long double)N / (long double)D, b = (long double)std::numeric_limits<Cm>::max() / fv;
                    long double rel = std::fabs(std::fabs((long double)x) / b - 1);
                    if (f9_known && rel <= 8 * (long double)std::numeric_limits<Cm>::epsilon()) ++n_f9_excluded;
                    else { fail(x, "cleared but result not finite"); ok = false; }
                }
            }
            if (special || (a > mx / 4)) { ++n_near; uint64_t k = 0; memcpy(&k, &x, sizeof(R) < 8 ? sizeof(R) : 8); dn.add(k); }
        }
        return ok;
    }

    bool check(R x) {
        g_crumb.inst = id; snprintf(g_crumb.what, sizeof g_crumb.what, "x=%s", val_s(x).c_str());
        uint64_t f0 = st.fails;
        if constexpr (std::is_integral<R>::value && std::is_integral<T>::value) check_int_int(x);
        else if constexpr (std::is_integral<R>::value) check_int_flt(x);
        else check_flt(x);
        return st.fails == f0;
    }

    // ---------- value generation
    static R from_bits(uint64_t raw) {
        R v; unsigned char b[sizeof(R)] = {0}; memcpy(b, &raw, sizeof(R) < 8 ? sizeof(R) : 8);
        if (sizeof(R) > 8) { uint16_t se = uint16_t(mix(raw) & 0xffff); memcpy(b + 8, &se, 2); if ((se & 0x7fff) != 0) b[7] |= 0x80; else b[7] &= 0x7f; }
        memcpy(&v, b, sizeof(R)); return v;
    }
    R gen_int(const uint64_t *d) const {
        typedef i128 W;
        W maxR = W(std::numeric_limits<R>::max()), minR = W(std::numeric_limits<R>::lowest());
        long double f = (long double)N / (long double)D;
        auto clampR = [&](long double v) -> R { if (v >= (long double)maxR) return std::numeric_limits<R>::max(); if (v <= (long double)minR) return std::numeric_limits<R>::lowest(); return R(v); };
        // thresholds: limits of T, Cm, Prom<Cm> mapped back through the factor
        long double lim[6] = {0, 0, 0, 0, 0, 0}; int nl = 0;
        if constexpr (std::is_integral<T>::value) { lim[nl++] = (long double)std::numeric_limits<T>::max() / f; lim[nl++] = (long double)std::numeric_limits<T>::lowest() / f; }
        if constexpr (std::is_integral<Cm>::value) {
            lim[nl++] = (long double)std::numeric_limits<Cm>::max() / f; lim[nl++] = (long double)std::numeric_limits<Cm>::lowest() / f;
            lim[nl++] = (long double)std::numeric_limits<Prom<Cm>>::max() / (long double)N; lim[nl++] = (long double)std::numeric_limits<Prom<Cm>>::lowest() / (long double)N;
        }
        switch (d[0] % 6) {
            case 0: { R b = nl ? clampR(lim[d[1] % nl]) : R(0); return R(uint64_t(int64_t(b)) + uint64_t(int64_t(int(d[2] % 9) - 4))); }
            case 1: return R(d[2]);
            case 2: return R(int64_t(d[2] % 8192) - (std::is_signed<R>::value ? 4096 : 0));
            case 3: { R b = nl ? clampR(lim[d[1] % nl]) : R(0); uint64_t dd = D ? D : 1; return R((uint64_t(int64_t(b)) / dd + (d[2] % 3) - 1) * dd); }
            case 4: { const R sp[] = {R(0), R(1), std::numeric_limits<R>::max(), std::numeric_limits<R>::lowest(), R(std::numeric_limits<R>::max() / 2), R(-1), R(std::numeric_limits<R>::max() - 1)}; return sp[d[1] % 7]; }
            default: { long double r = nl ? std::fabs(lim[0]) : 1000; if (r > (long double)maxR) r = (long double)maxR; uint64_t span = (r >= 18446744073709551615.0L ? ~0ull : uint64_t(r)) / (D ? D : 1); if (span == 0) span = 1; return R(uint64_t(d[2] % span) * (D ? D : 1)); }
        }
    }
    R gen_flt(const uint64_t *d) const {
        long double f = (long double)N / (long double)D;
        long double lims[8]; int nl = 0;
        if constexpr (std::is_integral<T>::value) {
            lims[nl++] = std::ldexp(1.0L, std::numeric_limits<T>::digits); lims[nl++] = (long double)std::numeric_limits<T>::max();
            lims[nl++] = (long double)std::numeric_limits<T>::lowest(); lims[nl++] = -std::ldexp(1.0L, std::numeric_limits<T>::digits);
            lims[nl++] = 0; lims[nl++] = -1; lims[nl++] = 1;
        } else { lims[nl++] = (long double)std::numeric_limits<T>::max(); lims[nl++] = (long double)std::numeric_limits<T>::lowest(); lims[nl++] = (long double)std::numeric_limits<T>::min(); }
        switch (d[0] % 5) {
            case 0: { R b = R(lims[d[1] % nl] / f); int steps = int(d[2] % 17) - 8; for (int i = 0; i < (steps < 0 ? -steps : steps); ++i) b = std::nextafter(b, steps < 0 ? -std::numeric_limits<R>::infinity() : std::numeric_limits<R>::infinity()); return b; }
            case 1: { int e = int(d[1] % 200) - 70; R b = std::ldexp(R(1), e); int k = int(d[2] % 3) - 1; if (k) b = std::nextafter(b, k < 0 ? R(0) : std::numeric_limits<R>::infinity()); return (d[2] & 8) ? R(-b) : b; }
            case 2: { const R sp[] = {R(0), R(-0.0), std::numeric_limits<R>::infinity(), -std::numeric_limits<R>::infinity(), std::numeric_limits<R>::quiet_NaN(), -std::numeric_limits<R>::quiet_NaN(),
                                      std::numeric_limits<R>::denorm_min(), std::numeric_limits<R>::min(), std::numeric_limits<R>::max(), std::numeric_limits<R>::lowest(), R(0.5), R(-0.5), R(1.5), R(2147483648.0), R(4294967296.0), R(9223372036854775808.0), R(18446744073709551616.0), R(-2147483649.0)};
                      return sp[d[1] % (sizeof sp / sizeof sp[0])]; }
            case 3: return from_bits(d[2]);
            default: { long double m = (long double)(int64_t(d[2] % 200001) - 100000); return R(m * (long double)D / (long double)N); }   // integer-valued results (cleared class)
        }
    }
    R gen(const uint64_t *d) const { if constexpr (std::is_integral<R>::value) return gen_int(d); else return gen_flt(d); }
    static bool prop(void *self, const uint64_t *d, size_t) { RepConv *me = static_cast<RepConv *>(self); return me->check(me->gen(d)); }

    void run() {
        if (!g_args.want(id)) return;
        if (g_args.one) {
            R x = parse_val<R>(g_args.one_vals.at(0));
            if (g_args.one_vals.size() > 1) x = from_bits(strtoull(g_args.one_vals[1].c_str(), nullptr, 0));
            bool ok = check(x); printf("AUVONE %s\n", ok && !failed ? "ok" : "fail"); return;
        }
        bool ex = false;
        if constexpr (std::is_integral<R>::value && sizeof(R) <= 2) {
            ex = true;
            for (int v = int(std::numeric_limits<R>::lowest()); v <= int(std::numeric_limits<R>::max()) && !failed; ++v) check(R(v));
        } else {
            for (uint64_t c = 0; c < 6 && !failed; ++c) for (uint64_t i = 0; i < 60 && !failed; ++i) { uint64_t d[3] = {c, i, i * 0x9e3779b97f4a7c15ull + c}; check(gen(d)); }
            if (!failed) { uint64_t out[3]; rc_run(id, 3, &RepConv::prop, this, out); }
        }
        st.inst = id; st.exhaustive = ex; st.nontrivial = dn.n;
        char h[320]; snprintf(h, sizeof h, "\"cleared\":%" PRIu64 ",\"overflow_reported\":%" PRIu64 ",\"special\":%" PRIu64 ",\"near_limit\":%" PRIu64 ",\"o1_trunc_not_called\":%" PRIu64 ",\"f9_excluded\":%" PRIu64 ",\"canary\":%s", n_cleared, n_ovf, n_special, n_near, n_o1_skipped, n_f9_excluded, canary ? "true" : "false");
        st.hist = h; st.samples.push_back(std::string(TypeName<R>::name()) + " -> " + TypeName<T>::name() + " x" + to_s(u128(N)) + "/" + to_s(u128(D))); report(st);
    }
};

}  // namespace auv
