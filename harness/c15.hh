// C15: unit-aware math functions.  Included after "au/au.hh"; C++17.
#pragma once
#include "auv.hh"

namespace auv {

template <class A> inline bool beq15(A a, A b) { return memcmp(&a, &b, sizeof(A) > 10 ? 10 : sizeof(A)) == 0 || (a != a && b != b); }

// ---------------------------------------------------------------- rounding to a unit
template <class R, class Src, class Dst>
struct Round15 {
    const char *id; long double f;   // exact value in Dst = x * f  (f = N/D or an irrational ratio, to long double precision)
    uint64_t N, D;                   // rational: exact; irrational: 0,0
    bool canary; Stats st; Distinct dn; bool failed = false; uint64_t n_band = 0, n_boundary = 0;
    typedef decltype(std::round(R{})) RR;
    Round15(const char *i, long double ff, uint64_t n, uint64_t d, bool c) : id(i), f(ff), N(n), D(d), canary(c), dn(19) {}
    void fail(R x, const std::string &m) { if (!failed) report_fail(id, std::string("{\"R\":\"") + TypeName<R>::name() + "\",\"x\":\"" + val_s(x) + "\",\"y\":\"0\"}", m); failed = true; st.fails++; }
    void check(R x) {
        g_crumb.inst = id; snprintf(g_crumb.what, sizeof g_crumb.what, "x=%s y=0", val_s(x).c_str());
        if (x != x || std::isinf((long double)x)) return;
        auto q = au::make_quantity<Src>(x);
        long double e = (long double)x * f;               // exact to ~1e-19 relative
        if (!(std::fabs(e) < 1e30L) || !(std::fabs(e) < (long double)std::numeric_limits<RR>::max() / 4)) return;   // far inside the rounding rep; beyond 2^53 the bracketing holds up to delta (relative)
        long double delta = 4 * (long double)std::numeric_limits<RR>::epsilon() * (std::fabs(e) + 1) + std::fabs(e) * 2e-19L;
        RR fl = au::floor_in(Dst{}, q), ce = au::ceil_in(Dst{}, q), ro = au::round_in(Dst{}, q);
        static_assert(std::is_same<decltype(au::floor_in(Dst{}, q)), RR>::value && std::is_same<decltype(au::round_in(Dst{}, q)), RR>::value, "rounding rep");
        static_assert(std::is_same<typename decltype(au::floor_as(Dst{}, q))::Unit, Dst>::value && std::is_same<typename decltype(au::round_as(Dst{}, q))::Rep, RR>::value, "floor_as/round_as unit and rep");
        st.evals += 3;
        long double lf = (long double)fl, lc = (long double)ce, lr = (long double)ro;
        if (canary) lr += 1;
        if (std::floor(lf) != lf || !(lf <= e + delta) || !(e - delta < lf + 1)) fail(x, "floor_in = " + val_s(fl) + " but exact value is " + val_s(e));
        if (std::floor(lc) != lc || !(lc >= e - delta) || !(lc - 1 < e + delta)) fail(x, "ceil_in = " + val_s(ce) + " but exact value is " + val_s(e));
        if (std::floor(lr) != lr || !(std::fabs(lr - e) <= 0.5L + delta)) fail(x, "round_in = " + val_s(ro) + " but exact value is " + val_s(e));
        // QuantityPoint forms: for units without an origin offset the point is rounded exactly like the quantity
        {
            auto pt = au::make_quantity_point<Src>(x); st.evals += 3;
            if (!beq15(RR(au::floor_in(Dst{}, pt)), fl) || !beq15(RR(au::ceil_in(Dst{}, pt)), ce) || !beq15(RR(au::round_in(Dst{}, pt)), ro)) fail(x, "rounding a QuantityPoint differs from rounding the quantity (units without origin)");
            if (!(au::round_as(Dst{}, pt).in(Dst{}) == ro)) fail(x, "round_as(point) differs");   // by value: reading a point re-adds a zero origin displacement, which turns -0.0 into +0.0
        }
        // _as forms and explicit-rep forms are the same numbers
        if (!beq15(au::floor_as(Dst{}, q).in(Dst{}), fl) || !beq15(au::ceil_as(Dst{}, q).in(Dst{}), ce) || !beq15(au::round_as(Dst{}, q).in(Dst{}), ro)) fail(x, "_as form differs from _in form");
        if (std::fabs(e) < 2e9L) {
            st.evals += 3;
            if (au::round_in<int64_t>(Dst{}, q) != static_cast<int64_t>(ro) || au::floor_as<int64_t>(Dst{}, q).in(Dst{}) != static_cast<int64_t>(fl) || au::ceil_in<int32_t>(Dst{}, q) != static_cast<int32_t>(ce)) fail(x, "explicit-rep form differs from static_cast of the implicit form");
        }
        if (std::fabs(e) < 16777216.0L) {   // below 2^24 every integral result is exact in float too: a floating OutputRep narrower (or wider) than the rounding rep must not move the result
            st.evals += 6;
            auto pt2 = au::make_quantity_point<Src>(x);
            if ((long double)au::round_in<float>(Dst{}, q) != (long double)ro || (long double)au::floor_as<float>(Dst{}, q).in(Dst{}) != lf || (long double)au::ceil_in<float>(Dst{}, q) != lc ||
                (long double)au::floor_in<double>(Dst{}, q) != lf || (long double)au::ceil_as<long double>(Dst{}, q).in(Dst{}) != lc ||
                (long double)au::floor_in<float>(Dst{}, pt2) != lf || (long double)au::round_as<float>(Dst{}, pt2).in(Dst{}) != (long double)ro || (long double)au::ceil_in<float>(Dst{}, pt2) != lc)
                fail(x, "explicit floating OutputRep form differs from the implicit form although the result is exactly representable");
        }
        long double frac = e - std::floor(e);
        bool on_boundary = (frac == 0 || frac == 0.5L);
        bool in_band = std::fabs(frac) < delta || std::fabs(frac - 0.5L) < delta || std::fabs(frac - 1) < delta;
        if (on_boundary) ++n_boundary; else if (in_band) ++n_band;
        if (in_band || on_boundary || N == 0) { uint64_t k = 0; memcpy(&k, &x, sizeof(R) < 8 ? sizeof(R) : 8); dn.add(k); }
    }
    R draw(const uint64_t *d) const {
        if (std::is_integral<R>::value) { return (d[0] % 2) ? R(int64_t(d[1] % 131073) - (std::is_signed<R>::value ? 65536 : 0)) : R(int64_t(d[1] >> (8 + d[1] % 40)) * ((std::is_signed<R>::value && (d[1] & 1)) ? -1 : 1)); }
        long double m = (long double)(int64_t(d[1] % 2000001) - 1000000);
        switch (d[0] % 4) {
            case 0: { R v = R((m + 0.5L) / f); int k = int(d[2] % 9) - 4; for (int i = 0; i < (k < 0 ? -k : k); ++i) v = std::nextafter(v, k < 0 ? -std::numeric_limits<R>::infinity() : std::numeric_limits<R>::infinity()); return v; }   // half-integers +- k ulp in the target unit
            case 1: { R v = R(m / f); int k = int(d[2] % 9) - 4; for (int i = 0; i < (k < 0 ? -k : k); ++i) v = std::nextafter(v, k < 0 ? -std::numeric_limits<R>::infinity() : std::numeric_limits<R>::infinity()); return v; }            // integers +- k ulp
            case 2: return R(m / 997.0L);
            default: return R((long double)(int64_t(d[1])) / 4096.0L);
        }
    }
    static bool prop(void *self, const uint64_t *d, size_t) { Round15 *me = static_cast<Round15 *>(self); uint64_t f0 = me->st.fails; me->check(me->draw(d)); return me->st.fails == f0; }
    void run() {
        if (!g_args.want(id)) return;
        if (g_args.one) { check(parse_val<R>(g_args.one_vals.at(0))); printf("AUVONE %s\n", failed ? "fail" : "ok"); return; }
        bool ex = false;
        if (std::is_integral<R>::value) { ex = sizeof(R) <= 2; for (int64_t v = -65536; v <= 65536 && !failed; ++v) { if (v < int64_t(std::numeric_limits<R>::lowest())) continue; if (sizeof(R) < 8 && v > int64_t(std::numeric_limits<R>::max())) break; check(R(v)); } }
        if (!failed) { uint64_t out[3]; rc_run(id, 3, &Round15::prop, this, out); }
        st.inst = id; st.exhaustive = ex; st.nontrivial = dn.n; char h[120]; snprintf(h, sizeof h, "\"on_boundary\":%" PRIu64 ",\"in_band\":%" PRIu64 ",\"canary\":%s", n_boundary, n_band, canary ? "true" : "false"); st.hist = h;
        st.samples.push_back(std::string(TypeName<R>::name()) + " rounding x" + val_s(f)); report(st);
    }
};

// ---------------------------------------------------------------- inversion
template <class R, class U, class T>
struct Inv15 {
    const char *id; uint64_t K; Stats st; Distinct dn; bool failed = false;   // inverse_in(T, U(x)) = K / x
    Inv15(const char *i, uint64_t k) : id(i), K(k), dn(16) {}
    void fail(R x, const std::string &m) { if (!failed) report_fail(id, std::string("{\"R\":\"") + TypeName<R>::name() + "\",\"x\":\"" + val_s(x) + "\",\"y\":\"0\"}", m); failed = true; st.fails++; }
    void check(R x) {
        g_crumb.inst = id; snprintf(g_crumb.what, sizeof g_crumb.what, "x=%s y=0", val_s(x).c_str());
        if (x == 0 || x != x) return;
        auto q = au::make_quantity<U>(x); st.evals += 2;
        if constexpr (std::is_integral<R>::value) {
            if (!(u128(K) <= u128(std::numeric_limits<R>::max()))) return;
            R e = R(i128(K) / i128(x));
            R r = au::inverse_in(T{}, q); auto r2 = au::inverse_as(T{}, q);
            static_assert(std::is_same<typename decltype(r2)::Unit, T>::value && std::is_same<typename decltype(r2)::Rep, R>::value, "inverse_as unit/rep");
            if (r != e || r2.in(T{}) != e) fail(x, "inverse_in = " + val_s(r) + " expected trunc(K/x) = " + val_s(e));
            if (x >= 1 && i128(x) <= 1000) { st.evals++; R back = au::inverse_in(U{}, au::inverse_as(T{}, q)); if (back != x) fail(x, "inverse(inverse(n)) = " + val_s(back)); }
            if (i128(K) % i128(x) != 0) dn.add(uint64_t(x));
        } else {
            long double e = (long double)K / (long double)x; R r = au::inverse_in(T{}, q);
            if (std::isfinite(e) && std::fabs(e) < (long double)std::numeric_limits<R>::max() && std::fabs((long double)r - e) > 4 * std::fabs(e) * (long double)std::numeric_limits<R>::epsilon()) fail(x, "inverse_in off by more than 4 ulp");
            auto r3 = au::inverse_as<double>(T{}, q); (void)r3;
            // explicit integral target rep on a floating quantity: trunc(K / x) (the division happens before the truncation)
            if (std::isfinite(e) && std::fabs(e) < 9e18L && std::fabs(e) >= 1) {
                long double fr = std::fabs(e - std::trunc(e));
                if (fr > 1e-6L && fr < 1 - 1e-6L) {     // keep clear of results that sit on an integer (rounding of the division could go either way)
                    st.evals++;
                    int64_t got = au::inverse_in<int64_t>(T{}, q), got2 = au::inverse_as<int64_t>(T{}, q).in(T{});
                    // the division is carried out in common_type<int64_t, R> = R: allow 4 ulp of R plus the truncation step
                    long double tolq = 4 * std::fabs(e) * (long double)std::numeric_limits<R>::epsilon() + 1;
                    if (std::fabs((long double)got - e) > tolq || got2 != got) fail(x, "inverse_in<int64_t>(target, floating quantity) = " + val_s(got) + " expected trunc(K/x) = " + val_s((int64_t)std::trunc(e)));
                }
            }
            uint64_t k = 0; memcpy(&k, &x, sizeof(R) < 8 ? sizeof(R) : 8); dn.add(k);
        }
    }
    static bool prop(void *self, const uint64_t *d, size_t) { Inv15 *me = static_cast<Inv15 *>(self); uint64_t f0 = me->st.fails; R x = std::is_integral<R>::value ? R(1 + d[0] % (d[1] % 2 ? 100000 : 2000000000)) : R((long double)(int64_t(d[0] % 2000001) - 1000000) / ((d[1] % 3) ? 7 : 16)); me->check(x); return me->st.fails == f0; }
    void run() {
        if (!g_args.want(id)) return;
        if (g_args.one) { check(parse_val<R>(g_args.one_vals.at(0))); printf("AUVONE %s\n", failed ? "fail" : "ok"); return; }
        for (int n = 1; n <= 1000 && !failed; ++n) check(R(n));
        if (!failed) { uint64_t out[2]; rc_run(id, 2, &Inv15::prop, this, out); }
        st.inst = id; st.nontrivial = dn.n; st.hist = "\"inversion\":true"; st.samples.push_back(std::string(TypeName<R>::name()) + " inversion K=" + to_s(u128(K))); report(st);
    }
};

// ---------------------------------------------------------------- trigonometry (angle unit = f radians)
template <class R, class A>
struct Trig15 {
    const char *id; long double f; Stats st; Distinct dn; bool failed = false;
    typedef std::conditional_t<std::is_floating_point<R>::value, R, double> P;
    Trig15(const char *i, long double ff) : id(i), f(ff), dn(18) {}
    void fail(R x, const std::string &m) { if (!failed) report_fail(id, std::string("{\"R\":\"") + TypeName<R>::name() + "\",\"x\":\"" + val_s(x) + "\",\"y\":\"0\"}", m); failed = true; st.fails++; }
    void check(R x) {
        g_crumb.inst = id; snprintf(g_crumb.what, sizeof g_crumb.what, "x=%s y=0", val_s(x).c_str());
        if (x != x || std::isinf((long double)x)) return;
        auto q = au::make_quantity<A>(x);
        long double argl = (long double)x * f; P arg = P(argl);
        if (!(std::fabs(argl) < 1e6L)) return;
        auto s = au::sin(q), c = au::cos(q), t = au::tan(q); st.evals += 3;
        static_assert(std::is_same<decltype(s), decltype(std::sin(P{}))>::value, "sin result type");
        long double ua = 4 * (std::fabs(argl) + 1e-30L) * (long double)std::numeric_limits<P>::epsilon();
        auto tol = [&](long double val, long double deriv) { return ua * std::max(1.0L, std::fabs(deriv)) + 2 * (std::fabs(val) + 1e-300L) * (long double)std::numeric_limits<P>::epsilon() + 1e-300L; };
        long double es = std::sin(argl), ec = std::cos(argl), et = std::tan(argl);
        if (std::fabs((long double)s - es) > tol(es, ec)) fail(x, "sin(q) = " + val_s(s) + " expected " + val_s(es));
        if (std::fabs((long double)c - ec) > tol(ec, es)) fail(x, "cos(q) = " + val_s(c) + " expected " + val_s(ec));
        if (std::fabs(ec) > 1e-3L && std::fabs((long double)t - et) > tol(et, 1 / (ec * ec)) * 4) fail(x, "tan(q) = " + val_s(t) + " expected " + val_s(et));
        // inverse functions return radians with the std:: value
        P v = P(std::sin(arg));
        auto a1 = au::arcsin(v), a2 = au::arccos(v), a3 = au::arctan(v), a4 = au::arctan2(v, P(0.5)); st.evals += 4;
        static_assert(std::is_same<typename decltype(a1)::Unit, au::Radians>::value && std::is_same<typename decltype(a4)::Unit, au::Radians>::value, "arc functions return radians");
        if (!beq15(a1.in(au::radians), std::asin(v)) || !beq15(a2.in(au::radians), std::acos(v)) || !beq15(a3.in(au::radians), std::atan(v)) || !beq15(a4.in(au::radians), std::atan2(v, P(0.5)))) fail(x, "arc function differs from std::");
        uint64_t k = 0; memcpy(&k, &x, sizeof(R) < 8 ? sizeof(R) : 8); dn.add(k);
    }
    static bool prop(void *self, const uint64_t *d, size_t) { Trig15 *me = static_cast<Trig15 *>(self); uint64_t f0 = me->st.fails; long double m = (long double)(int64_t(d[0] % 2000001) - 1000000); R x = std::is_integral<R>::value ? R(int64_t(d[0] % 2001) - (std::is_signed<R>::value ? 1000 : 0)) : ((d[1] % 3 == 0) ? R(m / 1000 / me->f) : ((d[1] % 3 == 1) ? R(m / 7) : R(int64_t(d[0] % 721) - 360))); me->check(x); return me->st.fails == f0; }
    void run() {
        if (!g_args.want(id)) return;
        if (g_args.one) { check(parse_val<R>(g_args.one_vals.at(0))); printf("AUVONE %s\n", failed ? "fail" : "ok"); return; }
        for (int v = -720; v <= 720 && !failed; ++v) { if (!std::is_signed<R>::value && v < 0) continue; check(R(v)); }
        if (!failed) { uint64_t out[2]; rc_run(id, 2, &Trig15::prop, this, out); }
        st.inst = id; st.nontrivial = dn.n; st.hist = "\"trig\":true"; st.samples.push_back(std::string(TypeName<R>::name()) + " trig unit=" + val_s(f) + " rad"); report(st);
    }
};

// ---------------------------------------------------------------- binary wrappers on the common unit
template <class R1, class R2, class U1, class U2>
struct Bin15 {
    const char *id; uint64_t k1, k2; Stats st; Distinct dn; bool failed = false;
    typedef au::CommonUnitT<U1, U2> C;
    Bin15(const char *i, uint64_t a, uint64_t b) : id(i), k1(a), k2(b), dn(18) {}
    void fail(R1 x, R2 y, const std::string &m) { if (!failed) report_fail(id, std::string("{\"x\":\"") + val_s(x) + "\",\"y\":\"" + val_s(y) + "\"}", m); failed = true; st.fails++; }
    void check(R1 x, R2 y) {
        g_crumb.inst = id; snprintf(g_crumb.what, sizeof g_crumb.what, "x=%s y=%s", val_s(x).c_str(), val_s(y).c_str());
        auto a = au::make_quantity<U1>(x); auto b = au::make_quantity<U2>(y);
        const bool ints = std::is_integral<R1>::value && std::is_integral<R2>::value;
        if (ints) { if (!(std::fabs((long double)x) * k1 < 1e9L && std::fabs((long double)y) * k2 < 1e9L)) return; }
        else {
            // operands are converted to the common unit in their own rep: keep finite operands away from that rep's overflow edge
            long double m1 = std::is_floating_point<R1>::value ? (long double)std::numeric_limits<R1>::max() / 4 : 1e18L, m2 = std::is_floating_point<R2>::value ? (long double)std::numeric_limits<R2>::max() / 4 : 1e18L;
            if (std::isfinite((long double)x) && !(std::fabs((long double)x) * k1 < m1)) return;
            if (std::isfinite((long double)y) && !(std::fabs((long double)y) * k2 < m2)) return;
        }
        // fmod / remainder / hypot: std:: on the operands expressed in the common unit
        typedef decltype(std::fmod(R1{}, R2{})) RF;
        RF X = RF(x) * RF(k1), Y = RF(y) * RF(k2);
        auto fm = au::fmod(a, b); auto rm = au::remainder(a, b); auto hy = au::hypot(a, b); st.evals += 3;
        static_assert(std::is_same<typename decltype(fm)::Unit, C>::value && std::is_same<typename decltype(hy)::Unit, C>::value, "result unit is the common unit");
        static_assert(std::is_same<typename decltype(fm)::Rep, RF>::value, "fmod rep");
        long double tolx = ints ? 0 : 4 * std::max((long double)std::numeric_limits<RF>::epsilon(), std::max(std::is_floating_point<R1>::value ? (long double)std::numeric_limits<R1>::epsilon() : 0.0L, std::is_floating_point<R2>::value ? (long double)std::numeric_limits<R2>::epsilon() : 0.0L));   // operands are converted in their own rep
        auto close = [&](long double g, long double e, long double scale) { return (g != g && e != e) || g == e || std::fabs(g - e) <= tolx * scale + (ints ? 0 : 1e-300L); };
        long double sc = std::fabs((long double)X) + std::fabs((long double)Y);
        if (ints || k1 == 1 && k2 == 1) {
            if (!beq15(fm.in(C{}), std::fmod(X, Y))) fail(x, y, "fmod differs from std::fmod on common-unit values");
            if (!beq15(rm.in(C{}), std::remainder(X, Y))) fail(x, y, "remainder differs from std::remainder on common-unit values");
        }
        if (x == x && y == y && !close((long double)hy.in(C{}), (long double)std::hypot(X, Y), sc)) fail(x, y, "hypot differs from std::hypot on common-unit values");
        // min / max / clamp on the common type
        typedef std::common_type_t<R1, R2> RC;
        if (!(std::is_integral<RC>::value && !(std::fabs((long double)x) * k1 < 1e9L))) {
            RC Xc = RC(RC(x) * RC(k1)), Yc = RC(RC(y) * RC(k2));
            auto mn = min(a, b), mx = max(a, b); auto cl = clamp(a, b, b); st.evals += 3;   // unqualified: hidden friends + ADL, as in user code
            static_assert(std::is_same<typename decltype(mn)::Unit, C>::value && std::is_same<typename decltype(mn)::Rep, RC>::value, "min unit/rep");
            bool exact = ints || (k1 == 1 && k2 == 1);
            if (exact) {
                // by value and only for ordered operands: the library documents its own choice among equivalent / unordered elements
                if (Xc == Xc && Yc == Yc) {
                    if (!(mn.in(C{}) == std::min(Xc, Yc)) || !(mx.in(C{}) == std::max(Xc, Yc))) fail(x, y, "min/max differ from std::min/max on common-unit values");
                    RC ce = (Xc < Yc) ? Yc : ((Yc < Xc) ? Yc : Xc);
                    if (!(cl.in(C{}) == ce)) fail(x, y, "clamp differs");
                }
            }
        }
        // unary / sign functions keep the unit and apply the std function to the stored value
        auto ab = au::abs(a); st.evals += 5;
        static_assert(std::is_same<typename decltype(ab)::Unit, U1>::value, "abs unit");
        if constexpr (std::is_signed<R1>::value) { if (!(std::is_integral<R1>::value && x == std::numeric_limits<R1>::lowest())) { if (!beq15(ab.in(U1{}), decltype(ab.in(U1{}))(std::abs(x)))) fail(x, y, "abs differs from std::abs"); } }
        if (au::isnan(a) != std::isnan((long double)x)) fail(x, y, "isnan differs");
        auto c1 = au::copysign(a, y); auto c2 = au::copysign(x, b); auto c3 = au::copysign(a, b);
        static_assert(std::is_same<typename decltype(c1)::Unit, U1>::value && std::is_same<typename decltype(c3)::Unit, U1>::value, "copysign unit");
        if (!beq15(c1.in(U1{}), std::copysign(x, y)) || !beq15(c2, std::copysign(x, y)) || !beq15(c3.in(U1{}), std::copysign(x, y))) fail(x, y, "copysign differs from std::copysign (sign bit of the second operand)");
        uint64_t kx = 0, ky = 0; memcpy(&kx, &x, sizeof(R1) < 8 ? sizeof(R1) : 8); memcpy(&ky, &y, sizeof(R2) < 8 ? sizeof(R2) : 8); dn.add(mix(kx) ^ mix(ky + 9));
    }
    template <class R> static R gen(uint64_t c, uint64_t raw) {
        if (std::is_floating_point<R>::value) {
            const R sp[] = {R(0), R(-0.0), R(1), R(-1), std::numeric_limits<R>::infinity(), -std::numeric_limits<R>::infinity(), std::numeric_limits<R>::quiet_NaN(), -std::numeric_limits<R>::quiet_NaN(), R(0.5), R(-2.5), R(1e10), std::numeric_limits<R>::denorm_min()};
            if (c % 3 == 0) return sp[raw % 12];
            if (c % 3 == 1) return R((long double)(int64_t(raw % 2000001) - 1000000) / 8);
            R v; unsigned char bb[sizeof(R)] = {0}; memcpy(bb, &raw, sizeof(R) < 8 ? sizeof(R) : 8); memcpy(&v, bb, sizeof(R) < 8 ? sizeof(R) : 8); if (sizeof(R) > 8) return R(double(raw)); return v;
        }
        return (c % 2) ? R(int64_t(raw % 2001) - (std::is_signed<R>::value ? 1000 : 0)) : R(int64_t(raw % 20000001) - (std::is_signed<R>::value ? 10000000 : 0));
    }
    static bool prop(void *self, const uint64_t *d, size_t) { Bin15 *me = static_cast<Bin15 *>(self); uint64_t f0 = me->st.fails; me->check(gen<R1>(d[0], d[1]), gen<R2>(d[2], d[3])); return me->st.fails == f0; }
    void run() {
        if (!g_args.want(id)) return;
        if (g_args.one) { check(parse_val<R1>(g_args.one_vals.at(0)), parse_val<R2>(g_args.one_vals.at(1))); printf("AUVONE %s\n", failed ? "fail" : "ok"); return; }
        for (uint64_t i = 0; i < 12 && !failed; ++i) for (uint64_t j = 0; j < 12 && !failed; ++j) check(gen<R1>(0, i), gen<R2>(0, j));
        if (!failed) { uint64_t out[4]; rc_run(id, 4, &Bin15::prop, this, out); }
        st.inst = id; st.nontrivial = dn.n; st.hist = "\"binary\":true"; st.samples.push_back(std::string(TypeName<R1>::name()) + "," + TypeName<R2>::name() + " wrappers"); report(st);
    }
};

}  // namespace auv
