// C08: mixed-unit comparison / + / - / % are exact in the common unit (integral reps of equal signedness),
// within a few ulp for floating reps.  Included after "au/au.hh" (C++17; <=> part only under C++20).
#pragma once
#include "auv.hh"

namespace auv {

template <class R, bool Signed = std::is_signed<R>::value>
struct W8 { typedef i128 type; };
template <class R>
struct W8<R, false> { typedef u128 type; };

template <class R1, class R2, class U1, class U2, bool MOD>
struct Mixed {
    typedef std::common_type_t<R1, R2> R;
    typedef decltype(std::declval<R>() + std::declval<R>()) P;
    typedef typename W8<R>::type W;
    typedef au::CommonUnitT<U1, U2> C;
    const char *id; uint64_t k1, k2; bool canary;
    Stats st; Distinct dn; bool failed = false;
    uint64_t n_equal = 0, n_adjacent = 0, n_skipped = 0, n_mod = 0;
    W maxR, minR, maxP, minP;
    Mixed(const char *i, uint64_t a, uint64_t b, bool c) : id(i), k1(a), k2(b), canary(c), dn(20) {
        maxR = W(std::numeric_limits<R>::max()); minR = W(std::numeric_limits<R>::lowest());
        maxP = W(std::numeric_limits<P>::max()); minP = W(std::numeric_limits<P>::lowest());
        static_assert(std::is_same<typename decltype(au::make_quantity<U1>(R1{}) + au::make_quantity<U2>(R2{}))::Unit, C>::value, "sum unit is the common unit");
        static_assert(std::is_same<typename decltype(au::make_quantity<U1>(R1{}) + au::make_quantity<U2>(R2{}))::Rep, P>::value, "sum rep");
        static_assert(std::is_same<typename decltype(au::make_quantity<U1>(R1{}) - au::make_quantity<U2>(R2{}))::Rep, decltype(std::declval<R>() - std::declval<R>())>::value, "difference rep");
    }
    std::string js(R1 x, R2 y) const {
        return std::string("{\"R1\":\"") + TypeName<R1>::name() + "\",\"R2\":\"" + TypeName<R2>::name() + "\",\"k1\":" + to_s(u128(k1)) + ",\"k2\":" + to_s(u128(k2)) + ",\"x\":\"" + val_s(x) + "\",\"y\":\"" + val_s(y) + "\"}";
    }
    void fail(R1 x, R2 y, const std::string &m) { if (!failed) report_fail(id, js(x, y), m); failed = true; st.fails++; }

    template <class Q1, class Q2>
    void mod_check(R1 x, R2 y, W X, W Y, Q1 a, Q2 b, std::true_type) {
        // % converts each operand with its own rep
        if (Y == 0) return;
        if (!(X >= W(std::numeric_limits<R1>::lowest()) && X <= W(std::numeric_limits<R1>::max()))) return;
        if (!(Y >= W(std::numeric_limits<R2>::lowest()) && Y <= W(std::numeric_limits<R2>::max()))) return;
        if (std::is_signed<R>::value && Y + 1 == 0 && X == minP) return;
        auto m = a % b; ++n_mod; st.evals++;
        static_assert(std::is_same<typename decltype(m)::Unit, C>::value, "modulo unit");
        static_assert(std::is_same<typename decltype(m)::Rep, decltype(std::declval<R1>() % std::declval<R2>())>::value, "modulo rep");
        if (W(m.in(C{})) != X % Y) fail(x, y, "(a % b).in(common) = " + val_s(m.in(C{})) + " expected " + to_s(W(X % Y)));
#if defined(__cpp_impl_three_way_comparison) && __cpp_impl_three_way_comparison >= 201907L
        { auto c3 = (a <=> b); int s = c3 < 0 ? -1 : (c3 > 0 ? 1 : 0); int e = X < Y ? -1 : (X > Y ? 1 : 0); st.evals++; if (s != e) fail(x, y, "<=> disagrees with exact ordering"); }
#endif
    }
    template <class Q1, class Q2>
    void mod_check(R1, R2, W, W, Q1, Q2, std::false_type) {}

    bool check(R1 x, R2 y) {
        g_crumb.inst = id; snprintf(g_crumb.what, sizeof g_crumb.what, "x=%s y=%s", val_s(x).c_str(), val_s(y).c_str());
        W X = W(x) * W(k1), Y = W(y) * W(k2);
        if (canary) Y = Y + 1;
        // precondition of the statement: scaling each operand to the common unit does not overflow the common rep
        if (!(X >= minR && X <= maxR && Y >= minR && Y <= maxR)) { ++n_skipped; return true; }
        uint64_t f0 = st.fails;
        auto a = au::make_quantity<U1>(x); auto b = au::make_quantity<U2>(y);
        const bool eq = a == b, ne = a != b, lt = a < b, le = a <= b, gt = a > b, ge = a >= b;
        st.evals += 6;
        if (eq != (X == Y) || ne != (X != Y) || lt != (X < Y) || le != (X <= Y) || gt != (X > Y) || ge != (X >= Y))
            fail(x, y, std::string("comparison disagrees with exact rational ordering: == ") + val_s(eq) + " < " + val_s(lt) + " > " + val_s(gt) + " (X=" + to_s(X) + ", Y=" + to_s(Y) + ")");
        // mutual consistency + antisymmetry (swap operands)
        if (eq == ne || lt == ge || le != (lt || eq) || (b > a) != lt || (b < a) != gt || (b == a) != eq || (b >= a) != le) fail(x, y, "comparison operators mutually inconsistent");
        st.evals += 4;
        W S = X + Y, D = X - Y;
        bool d_ok = std::is_signed<R>::value ? (D >= minP && D <= maxP) : true;
        if (S >= minP && S <= maxP) { auto s = a + b; st.evals++; if (W(s.in(C{})) != S) fail(x, y, "(a + b).in(common) = " + val_s(s.in(C{})) + " expected " + to_s(S)); }
        if (d_ok) {
            auto d = a - b; st.evals++;
            W De = std::is_signed<R>::value ? D : W(P(P(X) - P(Y)));  // unsigned: raw modular difference in the promoted type
            if (W(d.in(C{})) != De) fail(x, y, "(a - b).in(common) = " + val_s(d.in(C{})) + " expected " + to_s(De));
        }
        mod_check(x, y, X, Y, a, b, std::integral_constant<bool, MOD>{});
        if (X == Y) ++n_equal; else if (X - Y == 1 || Y - X == 1) ++n_adjacent;
        if (!(k1 == 1 && k2 == 1) && !(x == 0 && y == 0)) dn.add(mix(uint64_t(x)) ^ mix(uint64_t(y) + 77));
        return st.fails == f0;
    }
    template <class T> static T clampT(W v) { W lo = W(std::numeric_limits<T>::lowest()), hi = W(std::numeric_limits<T>::max()); if (v < lo) v = lo; if (v > hi) v = hi; return T(v); }
    static uint64_t gcd64(uint64_t a, uint64_t b) { while (b) { uint64_t t = a % b; a = b; b = t; } return a; }
    void from_draws(const uint64_t *d, R1 &x, R2 &y) const {
        uint64_t g = gcd64(k1, k2); uint64_t s1 = k2 / g, s2 = k1 / g;  // x = m*s1, y = m*s2  => x*k1 == y*k2
        W lim1 = maxR / W(k1), lim2 = maxR / W(k2);
        W mmax = lim1 / W(s1) < lim2 / W(s2) ? lim1 / W(s1) : lim2 / W(s2);
        if (mmax < 1) mmax = 1;
        switch (d[0] % 6) {
            case 0: { W m = W(u128(d[1]) % u128(mmax + 1)); if (std::is_signed<R>::value && (d[2] & 1)) m = W(0) - m; x = clampT<R1>(m * W(s1)); y = clampT<R2>(m * W(s2)); break; }
            case 1: { W m = W(u128(d[1]) % u128(mmax + 1)); x = clampT<R1>(m * W(s1) + W(int(d[2] % 3)) - 1); y = clampT<R2>(m * W(s2) + W(int((d[2] / 3) % 3)) - 1); break; }
            case 2: { x = clampT<R1>(lim1 + W(int(d[1] % 7)) - 3); y = clampT<R2>(lim2 + W(int(d[2] % 7)) - 3); if (std::is_signed<R>::value && (d[1] & 8)) x = R1(W(0) - W(x)); if (std::is_signed<R>::value && (d[2] & 8)) y = R2(W(0) - W(y)); break; }
            case 3: { x = R1(d[1]); y = R2(d[2]); break; }
            case 4: { x = clampT<R1>(W(d[1] % 2001) - (std::is_signed<R>::value ? 1000 : 0)); y = clampT<R2>(W(d[2] % 2001) - (std::is_signed<R>::value ? 1000 : 0)); break; }
            default: { x = clampT<R1>(W(u128(d[1]) % u128(lim1 + 1))); y = clampT<R2>(W(u128(d[2]) % u128(lim2 + 1))); if (std::is_signed<R>::value && (d[1] & 1)) x = R1(W(0) - W(x)); break; }
        }
    }
    static bool prop(void *self, const uint64_t *d, size_t) { Mixed *me = static_cast<Mixed *>(self); R1 x; R2 y; me->from_draws(d, x, y); return me->check(x, y); }
    void run() {
        if (!g_args.want(id)) return;
        if (g_args.one) { bool ok = check(parse_val<R1>(g_args.one_vals.at(0)), parse_val<R2>(g_args.one_vals.at(1))); printf("AUVONE %s\n", ok && !failed ? "ok" : "fail"); return; }
        bool ex = false;
        if (sizeof(R1) == 1 && sizeof(R2) <= 2) {
            ex = true;
            for (int a = int(std::numeric_limits<R1>::lowest()); a <= int(std::numeric_limits<R1>::max()) && !failed; ++a)
                for (int b = int(std::numeric_limits<R2>::lowest()); b <= int(std::numeric_limits<R2>::max()) && !failed; ++b) check(R1(a), R2(b));
        } else {
            for (uint64_t c = 0; c < 6 && !failed; ++c) for (uint64_t i = 0; i < 50 && !failed; ++i) { uint64_t d[3] = {c, i * 0x9e3779b97f4a7c15ull + i, i * 0xc2b2ae3d27d4eb4full + 3 * i}; R1 x; R2 y; from_draws(d, x, y); check(x, y); }
            if (!failed) { uint64_t out[3]; rc_run(id, 3, &Mixed::prop, this, out); }
        }
        st.inst = id; st.exhaustive = ex; st.nontrivial = dn.n;
        char h[256]; snprintf(h, sizeof h, "\"exactly_equal\":%" PRIu64 ",\"adjacent_to_equal\":%" PRIu64 ",\"skipped_precondition\":%" PRIu64 ",\"mod_evals\":%" PRIu64 ",\"canary\":%s", n_equal, n_adjacent, n_skipped, n_mod, canary ? "true" : "false");
        st.hist = h; st.samples.push_back(std::string(TypeName<R1>::name()) + "*" + to_s(u128(k1)) + " vs " + TypeName<R2>::name() + "*" + to_s(u128(k2))); report(st);
    }
};

// floating reps: comparisons asserted only when the exact difference exceeds 8 ulp; results within 4 ulp
template <class R1, class R2, class U1, class U2>
struct MixedF {
    typedef std::common_type_t<R1, R2> R; typedef au::CommonUnitT<U1, U2> C;
    const char *id; long double k1, k2; Stats st; Distinct dn; bool failed = false; uint64_t n_band = 0;
    MixedF(const char *i, long double a, long double b) : id(i), k1(a), k2(b), dn(18) {}
    bool check(R1 x, R2 y) {
        g_crumb.inst = id; snprintf(g_crumb.what, sizeof g_crumb.what, "x=%s y=%s", val_s(x).c_str(), val_s(y).c_str());
        if (!(std::isfinite(x) && std::isfinite(y))) return true;
        long double X = (long double)x * k1, Y = (long double)y * k2;
        long double mx = std::fabs(X) > std::fabs(Y) ? std::fabs(X) : std::fabs(Y);
        if (!(mx < (long double)std::numeric_limits<R>::max() / 4)) return true;
        long double ulp = mx * (long double)std::numeric_limits<R>::epsilon();
        auto a = au::make_quantity<U1>(x); auto b = au::make_quantity<U2>(y);
        uint64_t f0 = st.fails; st.evals += 8;
        bool ok = true; std::string why;
        if (std::fabs(X - Y) > 8 * ulp) {
            bool l = X < Y;
            if ((a < b) != l || (a <= b) != l || (a > b) == l || (a >= b) == l || (a == b) || !(a != b)) { ok = false; why = "comparison disagrees with exact ordering (difference > 8 ulp)"; }
        } else ++n_band;
        long double s = (long double)(a + b).in(C{}), d = (long double)(a - b).in(C{});
        if (std::fabs(s - (X + Y)) > 4 * ulp) { ok = false; why = "(a+b) off by more than 4 ulp"; }
        if (std::fabs(d - (X - Y)) > 4 * ulp) { ok = false; why = "(a-b) off by more than 4 ulp"; }
        if (!ok) { if (!failed) report_fail(id, std::string("{\"x\":\"") + val_s(x) + "\",\"y\":\"" + val_s(y) + "\",\"k1\":\"" + val_s(k1) + "\",\"k2\":\"" + val_s(k2) + "\"}", why); failed = true; st.fails++; }
        uint64_t kx = 0, ky = 0; memcpy(&kx, &x, sizeof(R1) < 8 ? sizeof(R1) : 8); memcpy(&ky, &y, sizeof(R2) < 8 ? sizeof(R2) : 8); dn.add(mix(kx) ^ mix(ky + 5));
        return st.fails == f0;
    }
    static bool prop(void *self, const uint64_t *d, size_t) {
        MixedF *me = static_cast<MixedF *>(self);
        long double m = (long double)(int64_t(d[1] % 2000001) - 1000000) / (1 + d[2] % 1000);
        R1 x; R2 y;
        switch (d[0] % 3) {
            case 0: x = R1(m / me->k1); y = R2(m / me->k2); break;                                // (nearly) equal
            case 1: x = R1(m / me->k1); y = R2((m / me->k2) * (1 + (long double)(int(d[2] % 41) - 20) * std::numeric_limits<R>::epsilon())); break;
            default: x = R1(m); y = R2((long double)(int64_t(d[2] % 2000001) - 1000000) / 7); break;
        }
        return me->check(x, y);
    }
    void run() {
        if (!g_args.want(id)) return;
        if (g_args.one) { bool ok = check(parse_val<R1>(g_args.one_vals.at(0)), parse_val<R2>(g_args.one_vals.at(1))); printf("AUVONE %s\n", ok ? "ok" : "fail"); return; }
        uint64_t out[3]; rc_run(id, 3, &MixedF::prop, this, out);
        st.inst = id; st.nontrivial = dn.n; char h[80]; snprintf(h, sizeof h, "\"in_band\":%" PRIu64, n_band); st.hist = h;
        st.samples.push_back(std::string(TypeName<R1>::name()) + " vs " + TypeName<R2>::name() + " floating"); report(st);
    }
};

}  // namespace auv
