// C17: std::chrono durations round-trip through quantities; mixed operations agree with chrono.  After "au/au.hh"; C++17/20.
#pragma once
#include "auv.hh"
#include <chrono>
#include <ratio>

namespace auv {

template <class R1, intmax_t N1, intmax_t D1, class R2, intmax_t N2, intmax_t D2, bool MIXED>
struct Chrono17 {
    typedef std::chrono::duration<R1, std::ratio<N1, D1>> Dur1;
    typedef std::chrono::duration<R2, std::ratio<N2, D2>> Dur2;
    typedef decltype(au::as_quantity(std::declval<Dur1>())) Q1;
    typedef decltype(au::as_quantity(std::declval<Dur2>())) Q2;
    typedef std::common_type_t<Dur1, Dur2> CD;
    typedef typename CD::rep CR;
    const char *id; uint64_t f1, f2; bool canary;   // counts * f -> common period (chrono's integer factors), from the model
    Stats st; Distinct dn; bool failed = false; uint64_t n_mixed = 0, n_skipped = 0;
    Chrono17(const char *i, uint64_t a, uint64_t b, bool c) : id(i), f1(a), f2(b), canary(c), dn(18) {
        static_assert(std::is_same<typename Q1::Rep, R1>::value, "as_quantity keeps the rep");
        static_assert(au::is_rational(au::unit_ratio(typename Q1::Unit{}, au::Seconds{})), "unit is seconds x Period (rational)");
        static_assert(au::get_value<std::uint64_t>(au::numerator(au::unit_ratio(typename Q1::Unit{}, au::Seconds{}))) == std::uint64_t(std::ratio<N1, D1>::num) &&
                      au::get_value<std::uint64_t>(au::denominator(au::unit_ratio(typename Q1::Unit{}, au::Seconds{}))) == std::uint64_t(std::ratio<N1, D1>::den), "unit is seconds x Period");
        typedef decltype(au::as_chrono_duration(std::declval<Q1>())) Back;
        static_assert(std::is_same<typename Back::rep, R1>::value, "as_chrono_duration rep");
        static_assert(Back::period::num == std::ratio<N1, D1>::num && Back::period::den == std::ratio<N1, D1>::den, "as_chrono_duration period");
    }
    void fail(R1 x, R2 y, const std::string &m) { if (!failed) report_fail(id, std::string("{\"x\":\"") + val_s(x) + "\",\"y\":\"" + val_s(y) + "\"}", m); failed = true; st.fails++; }
    template <class A> static bool beq(A a, A b) { return memcmp(&a, &b, sizeof(A) > 10 ? 10 : sizeof(A)) == 0 || (a != a && b != b); }

    template <bool B = MIXED>
    typename std::enable_if<B>::type mixed(R1 x, R2 y) {
        Dur1 d1{x}; Dur2 d2{y}; Q2 q2 = au::as_quantity(d2); Q1 q1 = au::as_quantity(d1);
        // chrono's own computation must not overflow (model: counts times integer factors in the common rep, then the raw sum/difference)
        if (std::is_integral<CR>::value) {
            i128 X = i128(x) * i128(f1), Y = i128(y) * i128(f2);
            i128 lo = i128(std::numeric_limits<CR>::lowest()), hi = i128(std::numeric_limits<CR>::max());
            if (!std::is_signed<CR>::value && (X < 0 || Y < 0)) { ++n_skipped; return; }
            if (X < lo || X > hi || Y < lo || Y > hi || X + Y < lo || X + Y > hi || X - Y < lo || X - Y > hi) { ++n_skipped; return; }
            if (i128(x) < i128(std::numeric_limits<CR>::lowest()) || i128(y) < i128(std::numeric_limits<CR>::lowest())) { ++n_skipped; return; }
        } else if (!(std::isfinite((long double)x) && std::isfinite((long double)y))) { ++n_skipped; return; }
        ++n_mixed; st.evals += 16;
        bool c_eq = d1 == d2, c_lt = d1 < d2, c_le = d1 <= d2, c_gt = d1 > d2, c_ge = d1 >= d2, c_ne = d1 != d2;
        if (canary) c_lt = !c_lt;
        if ((d1 == q2) != c_eq || (d1 != q2) != c_ne || (d1 < q2) != c_lt || (d1 <= q2) != c_le || (d1 > q2) != c_gt || (d1 >= q2) != c_ge) fail(x, y, "duration OP quantity differs from chrono's own result");
        if ((q1 == d2) != c_eq || (q1 != d2) != c_ne || (q1 < d2) != c_lt || (q1 <= d2) != c_le || (q1 > d2) != c_gt || (q1 >= d2) != c_ge) fail(x, y, "quantity OP duration differs from chrono's own result");
        CD cs = d1 + d2, cdiff = d1 - d2;
        auto s1 = d1 + q2; auto s2 = q1 + d2; auto m1 = d1 - q2; auto m2 = q1 - d2;
        typedef typename decltype(au::as_quantity(cs))::Unit CU;
        if (!beq(CR(s1.in(CU{})), cs.count()) || !beq(CR(s2.in(CU{})), cs.count()) || !beq(CR(m1.in(CU{})), cdiff.count()) || !beq(CR(m2.in(CU{})), cdiff.count())) fail(x, y, "mixed sum/difference differs from chrono's own result");
    }
    template <bool B = MIXED>
    typename std::enable_if<!B>::type mixed(R1, R2) {}

    void check(R1 x, R2 y) {
        g_crumb.inst = id; snprintf(g_crumb.what, sizeof g_crumb.what, "x=%s y=%s", val_s(x).c_str(), val_s(y).c_str());
        Dur1 d{x}; st.evals += 4;
        Q1 q = au::as_quantity(d);
        if (!beq(q.in(typename Q1::Unit{}), d.count())) fail(x, y, "as_quantity(d) does not hold d's count");
        Dur1 back = q; auto back2 = au::as_chrono_duration(q);
        if (!beq(back.count(), x) || !beq(back2.count(), x)) fail(x, y, "round trip duration -> quantity -> duration changed the count");
        Q1 q3 = d; if (!beq(q3.in(typename Q1::Unit{}), x)) fail(x, y, "implicit duration -> quantity conversion changed the count");
        Dur1 z = au::ZERO; if (z.count() != R1(0)) fail(x, y, "Dur z = ZERO is not zero");
        mixed(x, y);
        if (!(N1 == 1 && D1 == 1 && N2 == 1 && D2 == 1) || MIXED) { uint64_t kx = 0, ky = 0; memcpy(&kx, &x, sizeof(R1) < 8 ? sizeof(R1) : 8); memcpy(&ky, &y, sizeof(R2) < 8 ? sizeof(R2) : 8); dn.add(mix(kx) ^ mix(ky + 21)); }
    }
    template <class R> static R gen(uint64_t c, uint64_t raw, uint64_t f) {
        if (std::is_floating_point<R>::value) {
            const R sp[] = {R(0), R(-0.0), R(1), R(-1), R(0.1), R(1e9), R(-2.5), std::numeric_limits<R>::max(), std::numeric_limits<R>::denorm_min(), std::numeric_limits<R>::infinity(), std::numeric_limits<R>::quiet_NaN(), R(100.00000149011612)};
            if (c % 3 == 0) return sp[raw % 12];
            return R((long double)(int64_t(raw % 2000000001) - 1000000000) / ((c % 3 == 1) ? 1 : 1024));
        }
        i128 lim = i128(std::numeric_limits<R>::max()) / i128(f ? f : 1);
        switch (c % 5) {
            case 0: return R(int64_t(raw % 2001) - 1000);
            case 1: return R(raw);
            case 2: { i128 v = lim + i128(int(raw % 7) - 3); if (v > i128(std::numeric_limits<R>::max())) v = i128(std::numeric_limits<R>::max()); return R((raw & 8) ? -v : v); }
            case 3: { const R sp[] = {R(0), R(1), R(-1), std::numeric_limits<R>::max(), std::numeric_limits<R>::lowest(), R(std::numeric_limits<R>::max() / 2)}; return sp[raw % 6]; }
            default: return R(i128(raw) % (lim + 1));
        }
    }
    static bool prop(void *self, const uint64_t *d, size_t) {
        Chrono17 *me = static_cast<Chrono17 *>(self); uint64_t f0 = me->st.fails;
        R1 x = gen<R1>(d[0], d[1], me->f1); R2 y = gen<R2>(d[2], d[3], me->f2);
        if (d[4] % 4 == 0 && std::is_integral<R1>::value && std::is_integral<R2>::value && me->f2) { i128 t = i128(x) * i128(me->f1) / i128(me->f2) + i128(int(d[4] / 4 % 3) - 1); if (t >= i128(std::numeric_limits<R2>::lowest()) && t <= i128(std::numeric_limits<R2>::max())) y = R2(t); }   // near equality
        me->check(x, y); return me->st.fails == f0;
    }
    void run() {
        if (!g_args.want(id)) return;
        if (g_args.one) { check(parse_val<R1>(g_args.one_vals.at(0)), parse_val<R2>(g_args.one_vals.at(1))); printf("AUVONE %s\n", failed ? "fail" : "ok"); return; }
        for (uint64_t i = 0; i < 12 && !failed; ++i) for (uint64_t j = 0; j < 12 && !failed; ++j) check(gen<R1>(std::is_floating_point<R1>::value ? 0 : 3, i, f1), gen<R2>(std::is_floating_point<R2>::value ? 0 : 3, j, f2));
        if (!failed) { uint64_t out[5]; rc_run(id, 5, &Chrono17::prop, this, out); }
        st.inst = id; st.nontrivial = dn.n; char h[120]; snprintf(h, sizeof h, "\"mixed_evaluated\":%" PRIu64 ",\"skipped_chrono_overflow\":%" PRIu64 ",\"canary\":%s", n_mixed, n_skipped, canary ? "true" : "false"); st.hist = h;
        st.samples.push_back(std::string(TypeName<R1>::name()) + " ratio<" + std::to_string(N1) + "," + std::to_string(D1) + "> vs " + TypeName<R2>::name() + " ratio<" + std::to_string(N2) + "," + std::to_string(D2) + ">"); report(st);
    }
};

}  // namespace auv
