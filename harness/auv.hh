// Common value-level harness: reporting, distinct counting, type-erased rapidcheck driver.
// Generated translation units include this header (no rapidcheck headers => fast compiles);
// rcdriver.cc is compiled once per run and linked in.
#pragma once
#include <cinttypes>
#include <cmath>
#include <cstdint>
#include <cstdio>
#include <cstdlib>
#include <cstring>
#include <limits>
#include <string>
#include <type_traits>
#include <vector>

#define AUV_NOINLINE __attribute__((noinline))

namespace auv {

typedef __int128 i128;
typedef unsigned __int128 u128;

inline std::string to_s(u128 v) {
    if (v == 0) return "0";
    char buf[48]; int i = 47; buf[i] = 0;
    while (v) { buf[--i] = char('0' + int(v % 10)); v /= 10; }
    return std::string(buf + i);
}
inline std::string to_s(i128 v) {
    if (v < 0) return "-" + to_s(u128(0) - u128(v));
    return to_s(u128(v));
}
template <class T>
inline typename std::enable_if<std::is_integral<T>::value && std::is_signed<T>::value, std::string>::type
val_s(T v) { return to_s(i128(v)); }
template <class T>
inline typename std::enable_if<std::is_integral<T>::value && !std::is_signed<T>::value, std::string>::type
val_s(T v) { return to_s(u128(v)); }
template <class T>
inline typename std::enable_if<std::is_floating_point<T>::value, std::string>::type
val_s(T v) { char b[96]; snprintf(b, sizeof b, "%La", (long double)v); return b; }
inline std::string val_s(bool v) { return v ? "true" : "false"; }

template <class T> struct TypeName;
#define AUV_TN(T) template <> struct TypeName<T> { static const char *name() { return #T; } };
AUV_TN(int8_t) AUV_TN(uint8_t) AUV_TN(int16_t) AUV_TN(uint16_t) AUV_TN(int32_t) AUV_TN(uint32_t)
AUV_TN(int64_t) AUV_TN(uint64_t) AUV_TN(float) AUV_TN(double) AUV_TN(long double)
#undef AUV_TN

// 64-bit mix hash
inline uint64_t mix(uint64_t x) {
    x ^= x >> 33; x *= 0xff51afd7ed558ccdULL; x ^= x >> 33; x *= 0xc4ceb9fe1a85ec53ULL; x ^= x >> 33;
    return x;
}

// Distinct-key counter (open addressing; capped => conservative count).
struct Distinct {
    std::vector<uint64_t> tab; size_t n = 0; size_t cap;
    explicit Distinct(size_t log2cap = 20) : tab(size_t(1) << (log2cap + 1), 0), cap(size_t(1) << log2cap) {}
    void add(uint64_t k) {
        if (n >= cap) return;
        uint64_t h = mix(k) | 1; size_t m = tab.size() - 1, i = size_t(mix(h)) & m;
        while (tab[i] != 0) { if (tab[i] == h) return; i = (i + 1) & m; }
        tab[i] = h; ++n;
    }
};

// ---- current-case breadcrumbs for sanitizer deaths
struct Crumb { const char *inst; char what[160]; };
extern Crumb g_crumb;
void install_death_callback();

// ---- results
struct Stats {
    const char *inst;
    uint64_t evals = 0, nontrivial = 0, fails = 0;
    bool exhaustive = false;
    std::string hist;  // extra "k":v,... json fragment
    std::vector<std::string> samples;
};
void report(const Stats &s);
void report_fail(const char *inst, const std::string &input_json, const std::string &msg);

// ---- type-erased rapidcheck driver (rcdriver.cc). prop returns true when the property holds.
// draws: ndraws full-width uint64 values generated (and shrunk) by rapidcheck.
typedef bool (*PropFn)(void *ctx, const uint64_t *draws, size_t n);
// returns 0 ok, 1 falsified (failing draws copied to out), 2 gave up
int rc_run(const char *name, size_t ndraws, PropFn fn, void *ctx, uint64_t *out);

// argv helpers
struct Args {
    std::vector<std::string> only;      // instance ids to run (empty = all)
    std::vector<std::string> skip;
    bool one = false; std::string one_inst; std::vector<std::string> one_vals;
    uint64_t rc_cases = 2000;
    bool thorough = false;
    unsigned shard = 0, nshards = 1;
    bool want(const char *id) const {
        for (auto &s : skip) if (s == id) return false;
        if (one) return one_inst == id;
        if (only.empty()) return true;
        for (auto &s : only) if (s == id) return true;
        return false;
    }
};
Args parse_args(int argc, char **argv);
extern Args g_args;

inline i128 parse_i128(const std::string &s) {
    bool neg = !s.empty() && s[0] == '-'; u128 v = 0;
    for (size_t i = neg ? 1 : 0; i < s.size(); ++i) v = v * 10 + unsigned(s[i] - '0');
    return neg ? -i128(v) : i128(v);
}
template <class T>
inline typename std::enable_if<std::is_integral<T>::value, T>::type parse_val(const std::string &s) {
    return T(parse_i128(s));
}
template <class T>
inline typename std::enable_if<std::is_floating_point<T>::value, T>::type parse_val(const std::string &s) {
    return T(strtold(s.c_str(), nullptr));
}

}  // namespace auv
