// libFuzzer target for C12 (thorough tier): bytes -> (selector, a, b, n, e) -> library helper vs independent oracle.
// The semantic oracle is inside the target; a disagreement traps (crash-* artifact = violation).
#include <fuzzer/FuzzedDataProvider.h>
#include <cstdint>
#include <cstdio>
#include "au/utility/factoring.hh"
namespace ad = au::detail;
typedef unsigned __int128 u128;
static uint64_t o_mulmod(uint64_t a, uint64_t b, uint64_t n) { return uint64_t((u128)a * b % n); }
static uint64_t o_powmod(uint64_t a, uint64_t e, uint64_t n) { uint64_t r = 1 % n; a %= n; while (e) { if (e & 1) r = o_mulmod(r, a, n); a = o_mulmod(a, a, n); e >>= 1; } return r; }
static bool o_mr(uint64_t n, uint64_t a) { uint64_t d = n - 1; int s = 0; while (!(d & 1)) { d >>= 1; ++s; } uint64_t x = o_powmod(a, d, n); if (x == 1 || x == n - 1) return true; for (int i = 1; i < s; ++i) { x = o_mulmod(x, x, n); if (x == n - 1) return true; } return false; }
static bool o_isprime(uint64_t n) {
    if (n < 2) return false;
    static const uint64_t sp[] = {2, 3, 5, 7, 11, 13, 17, 19, 23, 29, 31, 37};
    for (uint64_t p : sp) if (n % p == 0) return n == p;
    static const uint64_t bases[] = {2, 325, 9375, 28178, 450775, 9780504, 1795265022};
    for (uint64_t a : bases) { uint64_t b = a % n; if (b == 0) continue; if (!o_mr(n, b)) return false; }
    return true;
}
static void fail(const char *what, uint64_t a, uint64_t b, uint64_t n, uint64_t e) {
    fprintf(stderr, "AUVFUZZ C12 %s a=%llu b=%llu n=%llu e=%llu\n", what, (unsigned long long)a, (unsigned long long)b, (unsigned long long)n, (unsigned long long)e);
    fflush(stderr); __builtin_trap();
}
static uint64_t shape(FuzzedDataProvider &f) {
    // structure-aware: plain, near 2^k, near 2^64, product of two 32-bit values, square
    uint64_t raw = f.ConsumeIntegral<uint64_t>();
    switch (f.ConsumeIntegralInRange<int>(0, 5)) {
        case 0: return raw;
        case 1: return (1ull << (raw % 64)) + (raw >> 58) - 16;
        case 2: return 0ull - 1 - (raw % 4096);
        case 3: { uint64_t p = (raw & 0xffffffffu) | 1, q = (raw >> 32) | 1; return p * q; }
        case 4: { uint64_t p = (raw & 0xffffffffu) | 1; return p * p; }
        default: return raw >> (raw % 60);
    }
}
extern "C" int LLVMFuzzerTestOneInput(const uint8_t *data, size_t size) {
    FuzzedDataProvider f(data, size);
    int sel = f.ConsumeIntegralInRange<int>(0, 3);
    uint64_t n = shape(f);
    if (sel == 0) {
        bool p = o_isprime(n);
        if (ad::is_prime(n) != p) fail("is_prime", 0, 0, n, 0);
        if (n > 3 && (n & 1) && p && ad::miller_rabin(2u, n) == ad::PrimeResult::COMPOSITE) fail("miller_rabin on prime", 0, 0, n, 0);
        if (n > 3 && (n & 1) && n != ~0ull && p && ad::strong_lucas(n) == ad::PrimeResult::COMPOSITE) fail("strong_lucas on prime", 0, 0, n, 0);
        return 0;
    }
    if (sel == 1) {
        // factoring: keep Pollard rho cheap (n below 2^48 or with a small factor)
        if (n < 2) return 0;
        if (n >> 48) { n = (n >> 16) | 1; }
        uint64_t fct = ad::find_prime_factor(n);
        if (fct < 2 || n % fct != 0 || !o_isprime(fct)) fail("find_prime_factor", fct, 0, n, 0);
        return 0;
    }
    if (n < 2) n = 2;
    uint64_t a = f.ConsumeIntegral<uint64_t>(), b = f.ConsumeIntegral<uint64_t>(), e = f.ConsumeIntegral<uint64_t>();
    int edge = f.ConsumeIntegralInRange<int>(0, 4);
    if (edge == 1) a = n - 1; if (edge == 2) b = n - 1; if (edge == 3) { a = n - 1; b = n - 1; } if (edge == 4) a = n / 2;
    uint64_t ar = a % n, br = b % n;   // documented preconditions: a, b < n
    if (ad::add_mod(ar, br, n) != uint64_t(((u128)ar + br) % n)) fail("add_mod", ar, br, n, 0);
    if (ad::sub_mod(ar, br, n) != uint64_t(((u128)ar + n - br) % n)) fail("sub_mod", ar, br, n, 0);
    if (ad::mul_mod(ar, br, n) != o_mulmod(ar, br, n)) fail("mul_mod", ar, br, n, 0);
    if (n & 1) { uint64_t h = ad::half_mod_odd(ar, n); if (h >= n || uint64_t(((u128)h * 2) % n) != ar) fail("half_mod_odd", ar, 0, n, 0); }
    if (sel == 3) { if (e >> 20) e >>= (e % 44); if (ad::pow_mod(a, e, n) != o_powmod(a, e, n)) fail("pow_mod", a, 0, n, e); }
    return 0;
}
