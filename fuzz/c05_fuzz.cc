// libFuzzer target for C05 (thorough tier): bytes -> (instance, raw bit pattern of the floating source) -> soundness oracle.
#include <fuzzer/FuzzedDataProvider.h>
#include <cmath>
#include <cstdint>
#include <cstdio>
#include <cstring>
#include <limits>
#include "au/au.hh"
#include "au/units/meters.hh"

template <class R, class T, class Dst>
static void check(R x, const char *name) {
    typedef au::Meters Src;
    auto q = au::make_quantity<Src>(x);
    R c = q.coerce_in(Dst{});                       // the library's own scaled value in the (floating) common type
    const bool o = au::will_conversion_overflow<T>(q, Dst{}), t = au::will_conversion_truncate<T>(q, Dst{}), l = au::is_conversion_lossy<T>(q, Dst{});
    const char *why = nullptr;
    if (l != (o || t)) why = "lossy != overflow || truncate";
    long double cl = (long double)c, hi = std::ldexp(1.0L, std::numeric_limits<T>::digits), lo = std::is_signed<T>::value ? -hi : 0.0L;
    bool castable = !(c != c) && !std::isinf(c) && cl < hi && (std::is_signed<T>::value ? cl > lo - 1 : cl > -1.0L);
    if (!castable && !l) why = "value that cannot be cast to the integral target is not reported lossy";
    if (!l && castable) {
        if (std::trunc(cl) != cl) why = "cleared although the scaled value is not an integer";
        else if (q.template coerce_in<T>(Dst{}) != static_cast<T>(c)) why = "coerce_in<T> differs from the value-preserving cast";   // UBSan float-cast-overflow guards the cast itself
    }
    if (why) { fprintf(stderr, "AUVFUZZ C05 %s: %s x=%La\n", name, why, (long double)x); fflush(stderr); __builtin_trap(); }
}
template <class R> static R from_bits(uint64_t raw, uint16_t hi16) {
    R v; unsigned char b[sizeof(R)] = {0}; memcpy(b, &raw, sizeof(R) < 8 ? sizeof(R) : 8);
    if (sizeof(R) > 8) { memcpy(b + 8, &hi16, 2); if ((hi16 & 0x7fff) != 0) b[7] |= 0x80; else b[7] &= 0x7f; }
    memcpy(&v, b, sizeof(R)); return v;
}
#define AUV_T(R, T, NUM, DEN, NAME) case __COUNTER__: check<R, T, decltype(au::Meters{} * (au::mag<DEN>() / au::mag<NUM>()))>(from_bits<R>(raw, h), NAME); break;
extern "C" int LLVMFuzzerTestOneInput(const uint8_t *data, size_t size) {
    FuzzedDataProvider f(data, size);
    int inst = f.ConsumeIntegralInRange<int>(0, 47);
    uint64_t raw = f.ConsumeIntegral<uint64_t>(); uint16_t h = f.ConsumeIntegral<uint16_t>();
    // steer half of the inputs to the interesting exponent range (|x| in [2^-2, 2^66])
    if (f.ConsumeBool()) { raw = (raw & 0x800fffffffffffffull) | (uint64_t(1021 + (raw >> 52) % 70) << 52); }
    switch (inst) {
        AUV_T(double, int8_t, 1, 1, "double->int8") AUV_T(double, uint8_t, 1, 1, "double->uint8") AUV_T(double, int16_t, 1, 1, "double->int16") AUV_T(double, uint16_t, 1, 1, "double->uint16")
        AUV_T(double, int32_t, 1, 1, "double->int32") AUV_T(double, uint32_t, 1, 1, "double->uint32") AUV_T(double, int64_t, 1, 1, "double->int64") AUV_T(double, uint64_t, 1, 1, "double->uint64")
        AUV_T(double, int32_t, 1000, 1, "double*1000->int32") AUV_T(double, uint64_t, 1000, 1, "double*1000->uint64") AUV_T(double, int64_t, 1, 1000, "double/1000->int64") AUV_T(double, int16_t, 127, 5000, "double*127/5000->int16")
        AUV_T(double, uint32_t, 3, 1, "double*3->uint32") AUV_T(double, int64_t, 1024, 1, "double*1024->int64") AUV_T(double, uint8_t, 1, 3, "double/3->uint8") AUV_T(double, int8_t, 5, 9, "double*5/9->int8")
        default: {
            float xf; uint32_t r32 = uint32_t(raw) ; if (f.ConsumeBool()) r32 = (r32 & 0x807fffffu) | (uint32_t(125 + (raw >> 40) % 70) << 23); memcpy(&xf, &r32, 4);
            long double xl = from_bits<long double>(raw, h);
            switch (inst - 16) {
                case 0: check<float, int8_t, au::Meters>(xf, "float->int8"); break; case 1: check<float, uint8_t, au::Meters>(xf, "float->uint8"); break;
                case 2: check<float, int16_t, au::Meters>(xf, "float->int16"); break; case 3: check<float, uint16_t, au::Meters>(xf, "float->uint16"); break;
                case 4: check<float, int32_t, au::Meters>(xf, "float->int32"); break; case 5: check<float, uint32_t, au::Meters>(xf, "float->uint32"); break;
                case 6: check<float, int64_t, au::Meters>(xf, "float->int64"); break; case 7: check<float, uint64_t, au::Meters>(xf, "float->uint64"); break;
                case 8: check<float, int32_t, decltype(au::Meters{} / au::mag<1000>())>(xf, "float*1000->int32"); break; case 9: check<float, uint64_t, decltype(au::Meters{} * au::mag<1024>())>(xf, "float/1024->uint64"); break;
                case 10: check<float, int64_t, decltype(au::Meters{} * au::mag<9>() / au::mag<5>())>(xf, "float*5/9->int64"); break; case 11: check<float, uint16_t, decltype(au::Meters{} / au::mag<3>())>(xf, "float*3->uint16"); break;
                case 12: check<long double, int8_t, au::Meters>(xl, "ldouble->int8"); break; case 13: check<long double, uint8_t, au::Meters>(xl, "ldouble->uint8"); break;
                case 14: check<long double, int16_t, au::Meters>(xl, "ldouble->int16"); break; case 15: check<long double, uint16_t, au::Meters>(xl, "ldouble->uint16"); break;
                case 16: check<long double, int32_t, au::Meters>(xl, "ldouble->int32"); break; case 17: check<long double, uint32_t, au::Meters>(xl, "ldouble->uint32"); break;
                case 18: check<long double, int64_t, au::Meters>(xl, "ldouble->int64"); break; case 19: check<long double, uint64_t, au::Meters>(xl, "ldouble->uint64"); break;
                case 20: check<long double, int64_t, decltype(au::Meters{} / au::mag<1000>())>(xl, "ldouble*1000->int64"); break; case 21: check<long double, uint64_t, decltype(au::Meters{} * au::mag<7>())>(xl, "ldouble/7->uint64"); break;
                default: check<long double, int32_t, decltype(au::Meters{} * au::mag<5000>() / au::mag<127>())>(xl, "ldouble*127/5000->int32"); break;
            }
        }
    }
    return 0;
}
