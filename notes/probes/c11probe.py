import sympy, sys
from fractions import Fraction as F
INTS={'int8_t':2**7-1,'uint8_t':2**8-1,'int16_t':2**15-1,'uint16_t':2**16-1,'int32_t':2**31-1,'uint32_t':2**32-1,'int64_t':2**63-1,'uint64_t':2**64-1}
FL={'float':(F(2)**128*(1-F(1,2**24)), F(2)**-149),'double':(F(2)**1024*(1-F(1,2**53)),F(2)**-1074),'long double':(F(2)**16384*(1-F(1,2**64)),F(2)**-16445)}
def magexpr(fr):
    fr=F(fr); parts=[]
    for p,e in sympy.factorint(fr.numerator).items(): parts.append(f'pow<{e}>(mag<{p}>())')
    for p,e in sympy.factorint(fr.denominator).items(): parts.append(f'pow<{-e}>(mag<{p}>())')
    return ' * '.join(parts) if parts else 'mag<1>()'
vals=set()
for k in (7,8,15,16,31,32,63,64):
    for d in (-2,-1,0,1,2): vals.add(F(2**k+d))
vals |= {F(1),F(2),F(3),F(255),F(1,2),F(3,2),F(1000),F(10**9),F(10**18),F(10**19),F(10**20),F(2**64-59),F(2**61-1),F((2**31-1)**2),F(3**40),F(5**27),F(5**28),F(127,128)}
vals={v for v in vals if v>0 and max(list(sympy.factorint(v.numerator).keys())+[1])<2**64 }
# skip values whose factorization needs Pollard rho on big cofactors at compile time: we emit factorised so fine
out=['#include "au/au.hh"','#include <cstdint>','using namespace au;']
n=0; skipped=0
for v in sorted(vals):
    big_prime = max(list(sympy.factorint(v.numerator).keys())+[1])
    for t,mx in INTS.items():
        if big_prime>2**63-1 and t.startswith('int'): skipped+=1; continue   # F7 class
        rep = v.denominator==1 and v<=mx
        out.append(f'#line {1000+n}\nstatic_assert(representable_in<{t}>({magexpr(v)}) == {"true" if rep else "false"}, "{t} {v}");'); n+=1
        if rep: out.append(f'#line {1000+n}\nstatic_assert(get_value<{t}>({magexpr(v)}) == {v.numerator}{"ULL" if v.numerator>2**63-1 else "LL" if v.numerator>2**31-1 else ""}, "val {t} {v}");'); n+=1
# floats: powers of two around limits
for t,(hi,lo) in FL.items():
    for e in (126,127,128,129,1022,1023,1024,1025,16382,16383,16384,16385,-125,-126,-148,-149,-1073,-1074,-16444,-16445,-150,-152,-1075,-1077,-16446,-16448):
        v=F(2)**e
        if abs(e)>16383: # individual base power must fit long double for positives; negative computed via inverse
            if e>0: exp=False
            else: continue
        elif v>hi: exp=False
        elif v>=2*lo: exp=True
        elif v<lo/4: skipped+=1; continue      # F4 class (silent zero)
        else: continue                          # band
        out.append(f'#line {1000+n}\nstatic_assert(representable_in<{t}>(pow<{e}>(mag<2>())) == {"true" if exp else "false"}, "{t} 2^{e}");'); n+=1
        if exp: out.append(f'#line {1000+n}\nstatic_assert(get_value<{t}>(pow<{e}>(mag<2>())) > 0, "pos {t} 2^{e}");'); n+=1
out.append('int main(){}')
open('c11g.cc','w').write('\n'.join(out)); print('asserts',n,'skipped known classes',skipped)
