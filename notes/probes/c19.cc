#include "au/au.hh"
#include "au/units/meters.hh"
#include "au/units/celsius.hh"
#include <chrono>
#include <cstdio>
#include <cmath>
#include <cstring>
#include <limits>
using namespace au;
static long bad=0;
template <class R> void chk(R x){
  auto q = meters(x); R z = R{0};
  bool ok = ((q==ZERO)==(x==z)) && ((q!=ZERO)==(x!=z)) && ((q<ZERO)==(x<z)) && ((q<=ZERO)==(x<=z)) && ((q>ZERO)==(x>z)) && ((q>=ZERO)==(x>=z))
         && ((ZERO==q)==(z==x)) && ((ZERO!=q)==(z!=x)) && ((ZERO<q)==(z<x)) && ((ZERO<=q)==(z<=x)) && ((ZERO>q)==(z>x)) && ((ZERO>=q)==(z>=x));
  auto s=(q+ZERO).in(meters); auto d=(q-ZERO).in(meters); auto t=(ZERO+q).in(meters); auto e1=x+z; auto e2=x-z; auto e3=z+x;
  static_assert(std::is_same<decltype(s),decltype(e1)>::value,"");
  ok = ok && !std::memcmp(&s,&e1,sizeof(R)<10?sizeof s:10) && !std::memcmp(&d,&e2,sizeof(R)<10?sizeof d:10) && !std::memcmp(&t,&e3,sizeof(R)<10?sizeof t:10);
  if(!ok){ if(bad<5) printf("bad rep size %zu x=%Lg\n", sizeof(R),(long double)x); ++bad; }
}
template <class R> void all_int(){ for(long long v=std::numeric_limits<R>::lowest(); v<=(long long)std::numeric_limits<R>::max(); ++v) chk<R>((R)v); }
template <class R> void fl(){ for(R v: {R(0),R(-0.0),R(1),R(-1),std::numeric_limits<R>::infinity(),-std::numeric_limits<R>::infinity(),std::numeric_limits<R>::quiet_NaN(),std::numeric_limits<R>::denorm_min(),std::numeric_limits<R>::max(),std::numeric_limits<R>::lowest()}) chk<R>(v); }
int main(){ all_int<int8_t>(); all_int<uint8_t>(); all_int<int16_t>(); all_int<uint16_t>(); chk<int>(INT32_MIN); chk<unsigned>(4000000000u); chk<int64_t>(INT64_MIN); chk<uint64_t>(~0ull); fl<float>(); fl<double>(); fl<long double>();
  constexpr Quantity<Meters,int> q0 = ZERO; static_assert(q0.in(meters)==0,""); constexpr double dz = ZERO; constexpr uint8_t uz = ZERO; std::chrono::duration<float, std::ratio<1001,30000>> cz = ZERO; Quantity<Celsius,float> qq{ZERO}; qq = ZERO;
  printf("bad=%ld %g %d %g %g\n", bad, dz, (int)uz, (double)cz.count(), (double)qq.in(celsius_qty)); }
