#include "au/au.hh"
#include "au/units/meters.hh"
#include "au/units/seconds.hh"
#include "au/units/hertz.hh"
#include "au/units/feet.hh"
#include "au/units/inches.hh"
#include "au/units/percent.hh"
#include "au/units/unos.hh"
#include "au/units/radians.hh"
#include <cstdint>
using namespace au;
static_assert(std::is_same<decltype(hertz(2) * seconds(3)), int>::value, "");
static_assert(std::is_same<decltype(hertz(2.0) * seconds(3)), double>::value, "");
static_assert(std::is_same<decltype(hertz(int8_t{2}) * seconds(int8_t{3})), int>::value, "");
static_assert(!std::is_same<decltype(hertz(2) * milli(seconds)(3)), int>::value, "");
static_assert(std::is_same<decltype(meters(6) / meters(3)), int>::value && meters(6)/meters(3)==2, "");
static_assert(std::is_same<decltype((meters/second)(6.0) * (seconds/meter)(3.0)), double>::value, "");
static_assert(!std::is_same<decltype(feet(6.0) / inches(3.0)), double>::value, "");
static_assert((feet(6.0) / inches(3.0)).in(feet/inch) == 2.0, "");
static_assert(std::is_same<decltype(percent(50.0) * percent(50.0)), Quantity<Pow<Percent,2>, double>>::value, "");
static_assert(std::is_same<decltype(unos(5) * unos(2)), int>::value, "");
static_assert(std::is_same<decltype(radians(5) / radians(2)), int>::value, "");
static_assert(std::is_same<decltype(int_pow<2>(meters(int16_t{3})))::Rep, int16_t>::value, "");
static_assert(int_pow<3>(meters(2)).in(cubed(meters)) == 8 && int_pow<-2>(meters(2.0)).in(pow<-2>(meters)) == 0.25, "");
static_assert(as_raw_number(meters(6.0)/meters(3.0)) == 2.0 && as_raw_number(unos(3)) == 3 && as_raw_number(percent(50.0)) == 0.5, "");
static_assert((10 / unblock_int_div(seconds(3))).in(inverse(seconds)) == 3, "");
static_assert((10.0 / seconds(4)).in(inverse(seconds)) == 2.5, "");
#if CASE==1
constexpr auto bad = meters(6) / seconds(3);
#elif CASE==2
constexpr auto bad = 10 / seconds(3);
#elif CASE==3
constexpr auto bad = feet(6) / inches(3);
#elif CASE==4
constexpr auto bad = as_raw_number(meters(3.0));
#elif CASE==5
constexpr auto bad = as_raw_number(percent(50));
#elif CASE==6
constexpr auto bad = int_pow<-1>(meters(2));
#elif CASE==7
constexpr auto good = meters(6) / unblock_int_div(seconds(3)); constexpr auto g2 = feet(6)/unblock_int_div(inches(4)); constexpr auto g3 = meters(6.0)/seconds(3); constexpr auto g4 = meters(6)/seconds(3.0); constexpr auto g5 = meters(7) / 2; constexpr auto g6 = 7 / unos(2);
#endif
int main(){}
