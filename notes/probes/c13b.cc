#include "au/au.hh"
#include "au/units/meters.hh"
#include "au/units/celsius.hh"
#include "au/units/newtons.hh"
#include <cstdio>
#include <cstring>
#include <cmath>
#include <limits>
using namespace au;
template <class U, class R> void layout(){
  using Q=Quantity<U,R>; using P=QuantityPoint<U,R>;
  static_assert(sizeof(Q)==sizeof(R)&&alignof(Q)==alignof(R)&&sizeof(P)==sizeof(R)&&alignof(P)==alignof(R),"");
  static_assert(std::is_trivially_copyable<Q>::value&&std::is_trivially_destructible<Q>::value&&std::is_standard_layout<Q>::value,"");
  static_assert(std::is_trivially_copyable<P>::value&&std::is_trivially_destructible<P>::value&&std::is_standard_layout<P>::value,"");
  static_assert(Q{}.in(U{})==R{}, ""); static_assert(P{}.in(U{})==R{}, "");
}
template <class U> void layouts(){ layout<U,int8_t>();layout<U,uint8_t>();layout<U,int16_t>();layout<U,uint16_t>();layout<U,int32_t>();layout<U,uint32_t>();layout<U,int64_t>();layout<U,uint64_t>();layout<U,float>();layout<U,double>();layout<U,long double>(); }
static long bad=0;
template <class R> void ops8(){
  for(int xi=std::numeric_limits<R>::lowest(); xi<=std::numeric_limits<R>::max(); ++xi) for(int yi=std::numeric_limits<R>::lowest(); yi<=std::numeric_limits<R>::max(); ++yi){
    R x=(R)xi,y=(R)yi; auto a=meters(x), b=meters(y);
    static_assert(std::is_same<typename decltype(a+b)::Rep, decltype(x+y)>::value,""); static_assert(std::is_same<typename decltype(a-b)::Rep, decltype(x-y)>::value,"");
    static_assert(std::is_same<typename decltype(a*y)::Rep, decltype(x*y)>::value,""); static_assert(std::is_same<typename decltype(x*b)::Rep, decltype(x*y)>::value,""); static_assert(std::is_same<typename decltype(a/y)::Rep, decltype(x/y)>::value,"");
    bool ok = (a+b).in(meters)==x+y && (a-b).in(meters)==x-y && (a*y).in(meters)==x*y && (x*b).in(meters)==x*y && (a==b)==(x==y)&&(a!=b)==(x!=y)&&(a<b)==(x<y)&&(a<=b)==(x<=y)&&(a>b)==(x>y)&&(a>=b)==(x>=y);
    if(y!=0) ok = ok && (a/y).in(meters)==x/y;
    { auto c=a; c+=b; R r=x; r+=y; ok=ok&&c.in(meters)==r; } { auto c=a; c-=b; R r=x; r-=y; ok=ok&&c.in(meters)==r; } { auto c=a; c*=y; R r=x; r*=y; ok=ok&&c.in(meters)==r; } if(y!=0){ auto c=a; c/=y; R r=x; r/=y; ok=ok&&c.in(meters)==r; }
    if(!ok){ if(bad<5) printf("ops8 bad %d %d\n",xi,yi); ++bad; }
  }
}
int main(){
  layouts<Meters>(); layouts<Celsius>(); layouts<Newtons>(); layouts<decltype(Meters{}*mag<3>()/Newtons{})>(); layouts<UnitProductT<>>();
  ops8<int8_t>(); ops8<uint8_t>();
  long rt=0; for(uint64_t b=0;b<(1ull<<32);b+=1){ uint32_t u=(uint32_t)b; float f; std::memcpy(&f,&u,4); float g=meters(f).in(meters); uint32_t v; std::memcpy(&v,&g,4); if(u!=v){ if(rt<5) printf("float rt bad %08x -> %08x\n",u,v); ++rt; } }
  { long double ld = std::numeric_limits<long double>::signaling_NaN(); long double h=meters(ld).in(meters); if(std::memcmp(&ld,&h,10)) {printf("ldbl snan changed\n"); ++rt;} double d=-0.0; double e=meters(d).in(meters); if(std::memcmp(&d,&e,8)) ++rt; }
  printf("ops bad=%ld float roundtrip bad=%ld\n",bad,rt);
}
