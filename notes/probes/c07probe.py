import random, sys, itertools
from fractions import Fraction as F
from table import *
rnd=random.Random(int(sys.argv[1]))
GROUPS={}
for n,(d,m) in T.items():
    if n in ('Becquerel','Celsius','Fahrenheit','Unos','Percent'): continue
    if 'pi' in m: continue
    GROUPS.setdefault(tuple(sorted(d.items())),[]).append(n)
GROUPS={k:v for k,v in GROUPS.items() if len(v)>=2}
def gcdmag(ms):
    keys=set().union(*[set(m) for m in ms]); g={}
    for k in keys:
        e=min(m.get(k,F(0)) for m in ms)
        if e: g[k]=e
    return g
out=['#include "au/au.hh"']+[f'#include "au/units/{hdr(n)}.hh"' for n in T]+['using namespace au;']
N=int(sys.argv[2])
for i in range(N):
    names=rnd.choice(list(GROUPS.values()))
    k=rnd.choice([2,3,3,4])
    items=[]
    for j in range(k):
        n=rnd.choice(names); 
        if rnd.random()<0.5:
            a=rnd.choice([2,3,5,6,7,10,12,36,1000,2**20,3**10]); b=rnd.choice([1,1,2,3,7,9,100,5**6])
            from math import gcd
            g=gcd(a,b); a//=g; b//=g
            items.append((f'decltype({n}{{}} * mag<{a}>() / mag<{b}>())', mul(T[n][1], mag(a,b))))
        else:
            items.append((n, T[n][1]))
    # twin check: distinct type spellings with equal magnitude where both are named -> skip
    named=[(s,m) for s,m in items if not s.startswith('decltype')]
    if any(a[0]!=b[0] and a[1]==b[1] for a in named for b in named): continue
    g=gcdmag([m for _,m in items])
    ts=[s for s,_ in items]
    C='CommonUnitT<'+', '.join(ts)+'>'
    out.append(f'#line {1000+i}\nstatic_assert(std::is_same<detail::MagT<{C}>, {spell_mag(g)}>::value, "gcd mag");')
    for perm in itertools.permutations(ts):
        out.append(f'#line {1000+i}\nstatic_assert(std::is_same<CommonUnitT<{", ".join(perm)}>, {C}>::value, "perm");')
    out.append(f'#line {1000+i}\nstatic_assert(std::is_same<CommonUnitT<{", ".join(ts+[ts[0]])}>, {C}>::value, "dup");')
    match=[s for s,m in items if m==g]
    if match:
        out.append(f'#line {1000+i}\nstatic_assert(' + ' || '.join(f'std::is_same<{C}, {s}>::value' for s in match) + ', "is an input");')
    for s,m in items:
        out.append(f'#line {1000+i}\nstatic_assert(is_integer(unit_ratio({s}{{}}, {C}{{}})), "divides");')
out.append('int main(){}')
open(f'c07_{sys.argv[1]}.cc','w').write('\n'.join(out))
