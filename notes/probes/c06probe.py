import sympy, sys
from fractions import Fraction as F
REPS={'int8_t':(1,8,1),'uint8_t':(0,8,1),'int16_t':(1,16,1),'uint16_t':(0,16,1),'int32_t':(1,32,1),'uint32_t':(0,32,1),'int64_t':(1,64,1),'uint64_t':(0,64,1),'float':(1,0,0),'double':(1,0,0)}
def maxof(r):
    s,b,i=REPS[r]; return (2**(b-1)-1) if s else (2**b-1)
def magexpr(n):
    if n==1: return 'mag<1>()'
    return ' * '.join(f'pow<{e}>(mag<{p}>())' for p,e in sympy.factorint(n).items())
ks=set([1,2,3,10,12,15,16,100,1000,10**6])
for r in REPS:
    if REPS[r][2]:
        t=maxof(r)//2147
        for d in (-1,0,1,2):
            if t+d>=1: ks.add(t+d)
        ks.add(maxof(r)); 
ks=sorted(k for k in ks if max(sympy.factorint(k).keys(), default=1) < 2**62)
fr=[F(1,2),F(1,1000),F(3,2),F(5,9),F(1000,3)]
out=['#include "au/au.hh"','#include "au/units/meters.hh"','#include <cstdint>','using namespace au;']
n=0; excluded=0
for r1 in REPS:
  for r2 in REPS:
    i1=REPS[r1][2]; i2=REPS[r2][2]
    for k in ks+fr:
        k=F(k)
        if k.denominator==1:
            ue=f'decltype(Meters{{}} * ({magexpr(k.numerator)}))'
        else:
            ue=f'decltype(Meters{{}} * ({magexpr(k.numerator)}) / ({magexpr(k.denominator)}))'
        if not i2: M=True
        else:
            isint=k.denominator==1
            # known class F1: integral source, integer k, k>1, k not representable in R2 -> hard error today
            if i1 and isint and k>1 and k>maxof(r2): excluded+=1; continue
            M = (i1 and isint and 2147*k<=maxof(r2)) or (k==1 and i1 and i2)
            if k==1 and r1==r2: M=True
        out.append(f'#line {1000+n}\nstatic_assert(std::is_convertible<Quantity<{ue},{r1}>, Quantity<Meters,{r2}>>::value == {"true" if M else "false"}, "{r1}->{r2} k={k}");'); n+=1
out.append('int main(){}')
open('c06.cc','w').write('\n'.join(out)); print('asserts',n,'excluded(F1 class)',excluded, 'ks',ks)
