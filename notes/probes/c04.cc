#include "au/au.hh"
#include "au/units/meters.hh"
#include <cstdio>
#include <cstdint>
#include <limits>
using namespace au;
typedef __int128 i128;
template <typename T> struct Prom { using type = decltype(std::declval<T>()*std::declval<T>()); };
static long bad=0, total=0;
template <typename T, std::uintmax_t N, std::uintmax_t D>
void run() {
  using P = typename Prom<T>::type;
  constexpr auto target = Meters{} * mag<D>() / mag<N>();  // ratio meters/target = N/D
  // reduce
  std::uintmax_t g = au::detail::gcd(N, D); std::uintmax_t n = N/g, d = D/g;
  constexpr std::uintmax_t g_ = au::detail::gcd(N, D); constexpr std::uintmax_t n_ = N/g_, d_ = D/g_;
  constexpr bool CONV = (d_==1) ? (n_ <= (std::uintmax_t)std::numeric_limits<T>::max()) : (n_==1) ? (d_ <= (std::uintmax_t)std::numeric_limits<T>::max()) : (n_ <= (std::uintmax_t)std::numeric_limits<P>::max() && d_ <= (std::uintmax_t)std::numeric_limits<P>::max());
  i128 tmin = std::numeric_limits<T>::lowest(), tmax = std::numeric_limits<T>::max();
  i128 pmin = std::numeric_limits<P>::lowest(), pmax = std::numeric_limits<P>::max();
  for (i128 xi = tmin; xi <= tmax; ++xi) {
    T x = (T)xi; ++total;
    auto q = meters(x);
    bool ovf = will_conversion_overflow(q, target);
    bool tr = will_conversion_truncate(q, target);
    i128 prod = xi * (i128)n;
    bool exp_tr = (prod % (i128)d) != 0;
    bool exp_ovf;
    bool integer_mult = (d==1), integer_div = (n==1);
    // exact value x*n/d outside range
    // x*n/d > tmax <=> x*n > tmax*d ; < tmin <=> x*n < tmin*d
    bool final_out = (prod > tmax*(i128)d) || (prod < tmin*(i128)d);
    bool inter_out = false;
    if (!integer_mult && !integer_div) inter_out = (prod > pmax) || (prod < pmin);
    exp_ovf = final_out || inter_out;
    if (ovf != exp_ovf || tr != exp_tr) {
      if (bad < 40) printf("MISMATCH T=%zu%c N=%llu D=%llu x=%lld ovf=%d exp=%d tr=%d exp=%d\n", sizeof(T), std::is_signed<T>::value?'s':'u',(unsigned long long)N,(unsigned long long)D,(long long)xi,ovf,exp_ovf,tr,exp_tr);
      ++bad;
    }
    if constexpr (CONV) if (!ovf && !tr) {
      T r = q.coerce_in(target);
      if ((i128)r * (i128)d != prod) { if (bad<40) printf("VALUE T=%zu N=%llu D=%llu x=%lld r=%lld\n", sizeof(T),(unsigned long long)N,(unsigned long long)D,(long long)xi,(long long)r); ++bad; }
    }
  }
}
template <typename T> void all() {
  run<T,1,1>(); run<T,2,1>(); run<T,1,2>(); run<T,3,2>(); run<T,2,3>(); run<T,127,1>(); run<T,128,1>(); run<T,1,127>();
  run<T,1000,1>(); run<T,1,1000>(); run<T,1143,1250>(); run<T,1250,1143>(); run<T,5,9>(); run<T,9,5>(); run<T,255,256>(); run<T,256,255>();
  run<T,65535,65536>(); run<T,65537,65536>(); run<T,32767,2>(); run<T,32769,2>(); run<T,3,32768>(); run<T,2147483647,2>(); run<T,2147483647,2147483646>();
  run<T,16777259,3>(); run<T,3,16777259>(); run<T,100003,100000>(); run<T,46341,46340>();run<T,7,128>(); run<T,129,128>(); run<T,129,2>();
}
int main(){ all<int8_t>(); all<uint8_t>(); all<int16_t>(); all<uint16_t>(); printf("total=%ld bad=%ld\n", total, bad); }
