#include "au/au.hh"
#include "au/units/kelvins.hh"
#include "au/units/celsius.hh"
#include "au/units/fahrenheit.hh"
#include <cstdint>
using namespace au;
struct G1 : decltype(Kelvins{} * mag<7>() / mag<12>()) { static constexpr auto origin() { return (kelvins * mag<1>() / mag<40>())(int64_t{123}); } };
struct G2 : decltype(Kelvins{} * mag<3>() / mag<10>()) { static constexpr auto origin() { return (kelvins * mag<5>() / mag<9>())(int64_t{-77}); } };
using C = CommonPointUnitT<G1, G2, Celsius>;
constexpr long long p(int x) { return make_quantity_point<G1>(x).coerce_in<long long>(C{}); }
constexpr long long q(int x) { return make_quantity_point<G2>(x).coerce_in<long long>(C{}); }
constexpr long long r(int x) { return make_quantity_point<Celsius>(x).coerce_in<long long>(C{}); }
static_assert(std::is_same<C, CommonPointUnitT<Celsius, G2, G1, G2>>::value, "perm");
static_assert(is_integer(unit_ratio(G1{}, C{})), "");
#include <cstdio>
int main(){ printf("%lld %lld %lld | %lld %lld | %lld %lld\n", p(0), p(1), p(7), q(0), q(1), r(0), r(1));
  printf("%Lf %Lf\n", make_quantity_point<G1>(1).coerce_in<long double>(C{}), make_quantity_point<G2>(0).coerce_in<long double>(C{}));
  printf("%s\n", unit_label(C{})); }
