import random, sys, subprocess, itertools
from fractions import Fraction as F
from math import gcd
rnd=random.Random(int(sys.argv[1])); N=int(sys.argv[2])
LIB={'Kelvins':(F(1),F(0)),'Celsius':(F(1),F(27315,100)),'Fahrenheit':(F(5,9),F(45967,100)*F(5,9)),
     'Milli<Kelvins>':(F(1,1000),F(0)),'Milli<Celsius>':(F(1,1000),F(27315,100)),'Kilo<Fahrenheit>':(F(5000,9),F(45967,100)*F(5,9)),'Centi<Celsius>':(F(1,100),F(27315,100))}
defs=[]; units=dict(LIB)
for i in range(12):
    a,b=rnd.randint(1,1000),rnd.randint(1,1000); g=gcd(a,b); a//=g; b//=g
    c,d=rnd.randint(1,60),rnd.randint(1,60); g=gcd(c,d); c//=g; d//=g
    o=rnd.choice([0,rnd.randint(1,500),-rnd.randint(1,500)])
    name=f'G{i}'
    if o==0 and rnd.random()<0.5:
        defs.append(f'struct {name} : decltype(Kelvins{{}} * mag<{a}>() / mag<{b}>()) {{}};')
    else:
        defs.append(f'struct {name} : decltype(Kelvins{{}} * mag<{a}>() / mag<{b}>()) {{ static constexpr auto origin() {{ return (kelvins * mag<{c}>() / mag<{d}>())(int64_t{{{o}}}); }} }};')
    units[name]=(F(a,b), F(c,d)*o)
out=['#include "au/au.hh"','#include "au/units/kelvins.hh"','#include "au/units/celsius.hh"','#include "au/units/fahrenheit.hh"','#include <cstdio>','#include <cstdint>','using namespace au;']+defs+['int main(){']
cases=[]
names=list(units)
for i in range(N):
    k=rnd.choice([2,2,3])
    us=[rnd.choice(names) for _ in range(k)]
    # twin exclusion: distinct names with same (mag, origin)
    if any(a!=b and units[a]==units[b] for a in us for b in us): continue
    C='CommonPointUnitT<'+', '.join(us)+'>'
    cases.append(us)
    ci=len(cases)-1
    perms=set(itertools.permutations(us))
    sa=' && '.join(f'std::is_same<CommonPointUnitT<{", ".join(p)}>, {C}>::value' for p in perms)
    out.append(f'  static_assert({sa}, "perm {ci}");')
    out.append(f'  static_assert(std::is_same<CommonPointUnitT<{", ".join(us+[us[-1]])}>, {C}>::value, "dup {ci}");')
    for j,u in enumerate(us):
        out.append(f'  {{ constexpr long long p0=make_quantity_point<{u}>(0).coerce_in<long long>({C}{{}}), p1=make_quantity_point<{u}>(1).coerce_in<long long>({C}{{}}), p7=make_quantity_point<{u}>(7).coerce_in<long long>({C}{{}}); constexpr long double l1=make_quantity_point<{u}>(1).coerce_in<long double>({C}{{}}); std::printf("%d\\t%d\\t%lld\\t%lld\\t%lld\\t%.6Lf\\t%d\\t%d\\n", {ci}, {j}, p0,p1,p7,l1, (int)is_integer(unit_ratio({u}{{}}, {C}{{}})), (int)std::is_same<{C},{u}>::value); }}')
out.append('}')
src=f'c10_{sys.argv[1]}.cc'; open(src,'w').write('\n'.join(out))
r=subprocess.run(['g++','-std=c++14','-I/repo/au/code',src,'-o',src[:-3]],capture_output=True,text=True)
if r.returncode: print(r.stderr[:3000]); sys.exit(1)
res=subprocess.check_output(['./'+src[:-3]]).decode()
rows={}
for line in res.splitlines():
    ci,j,p0,p1,p7,l1,isint,same=line.split('\t'); rows.setdefault(int(ci),{})[int(j)]=(int(p0),int(p1),int(p7),float(l1),int(isint),int(same))
bad=0
for ci,us in enumerate(cases):
    R=rows[ci]; rd={}
    for j,u in enumerate(us):
        p0,p1,p7,l1,isint,same=R[j]; r=p1-p0
        ok = r>0 and p7==7*r+p0 and p0>=0 and abs(l1-p1)<1e-6 and isint
        rd[j]=(r,p0)
        if not ok: print('BAD', us, u, R[j]); bad+=1
    for a in range(len(us)):
        for b in range(len(us)):
            (ra,da),(rb,db)=rd[a],rd[b]; (ma,oa),(mb,ob)=units[us[a]],units[us[b]]
            if F(ra,rb)!=ma/mb or F(da-db,ra)!=(oa-ob)/ma: print('INCONSISTENT',us,a,b,rd); bad+=1
    hit=[j for j in rd if rd[j]==(1,0)]
    if hit and not any(R[j][5] for j in hit): print('NOT INPUT',us,rd); bad+=1
print('seed',sys.argv[1],'cases',len(cases),'bad',bad, 'with r=1,d=0 hits', sum(1 for ci in range(len(cases)) if any((rows[ci][j][1]-rows[ci][j][0],rows[ci][j][0])==(1,0) for j in rows[ci])))
