#include "au/au.hh"
#include "au/units/meters.hh"
#include <cstdio>
#include <cstdint>
#include <limits>
using namespace au;
typedef __int128 i128;
template <typename T> struct Prom { using type = decltype(std::declval<T>()*std::declval<T>()); };
static long bad=0,total=0,cleared=0,implied=0;
template <typename R, typename T, std::uintmax_t N, std::uintmax_t D>
void run(){
  using C = std::common_type_t<R,T>; using P = typename Prom<C>::type;
  constexpr std::uintmax_t g_=au::detail::gcd(N,D), n=N/g_, d=D/g_;
  constexpr bool CONV = (d==1) ? (n <= (std::uintmax_t)std::numeric_limits<C>::max()) : (n==1) ? (d <= (std::uintmax_t)std::numeric_limits<C>::max()) : (n <= (std::uintmax_t)std::numeric_limits<P>::max() && d <= (std::uintmax_t)std::numeric_limits<P>::max());
  if constexpr (CONV) {
  constexpr auto target = Meters{} * mag<D>() / mag<N>();
  i128 rmin=std::numeric_limits<R>::lowest(), rmax=std::numeric_limits<R>::max(), cmin=std::numeric_limits<C>::lowest(), cmax=std::numeric_limits<C>::max(), pmin=std::numeric_limits<P>::lowest(), pmax=std::numeric_limits<P>::max(), tmin=std::numeric_limits<T>::lowest(), tmax=std::numeric_limits<T>::max();
  for (i128 xi=rmin; xi<=rmax; ++xi){ R x=(R)xi; auto q=meters(x); ++total;
    bool ovf = will_conversion_overflow<T>(q, target);
    // model
    bool s1 = xi<cmin || xi>cmax;
    i128 prod = xi*(i128)n;
    bool s2 = false, tr=false; i128 res=0; bool s3=false;
    if(!s1){ bool fin = prod > cmax*(i128)d || prod < cmin*(i128)d; bool inter = (d!=1 && n!=1) && (prod>pmax || prod<pmin); s2 = fin||inter; tr = (prod % (i128)d)!=0;
      if(!s2){ res = prod/(i128)d; s3 = res<tmin || res>tmax; } }
    bool exp_ovf = s1||s2||s3;
    // exact-value notion for claim (3): some step's exact value out of range
    bool exact_out = s1 || s2 || (!s1&&!s2&&( prod > tmax*(i128)d || prod < tmin*(i128)d ));
    bool trunc=false, lossy=false;
    if(!ovf){ trunc = will_conversion_truncate<T>(q,target); lossy = is_conversion_lossy<T>(q,target);
      if (lossy != (trunc||ovf)) { if(bad<10) printf("lossy inconsistent\n"); ++bad; }
      if (trunc != tr) { if(bad<10) printf("TRUNC R=%zu T=%zu N=%llu D=%llu x=%lld trunc=%d exp=%d\n",sizeof(R),sizeof(T),(unsigned long long)N,(unsigned long long)D,(long long)xi,trunc,tr); ++bad; }
    }
    if (ovf != exp_ovf) { if(bad<10) printf("OVF R=%zu%c T=%zu%c N=%llu D=%llu x=%lld ovf=%d exp=%d (s1=%d s2=%d s3=%d)\n",sizeof(R),std::is_signed<R>::value?'s':'u',sizeof(T),std::is_signed<T>::value?'s':'u',(unsigned long long)N,(unsigned long long)D,(long long)xi,ovf,exp_ovf,s1,s2,s3); ++bad; }
    if (ovf && !exact_out) { ++implied; if(bad<10) printf("CLAIM3 fails R=%zu T=%zu N=%llu D=%llu x=%lld\n",sizeof(R),sizeof(T),(unsigned long long)N,(unsigned long long)D,(long long)xi); ++bad; }
    if (!ovf && !lossy) { ++cleared; T r = q.template coerce_in<T>(target); if ((i128)r*(i128)d != prod) { if(bad<10) printf("VALUE R=%zu T=%zu N=%llu D=%llu x=%lld r=%lld\n",sizeof(R),sizeof(T),(unsigned long long)N,(unsigned long long)D,(long long)xi,(long long)r); ++bad; } }
  } }
}
template <typename R, typename T> void facs(){ run<R,T,1,1>(); run<R,T,2,1>(); run<R,T,1,2>(); run<R,T,3,2>(); run<R,T,2,3>(); run<R,T,127,1>(); run<R,T,128,1>(); run<R,T,1000,1>(); run<R,T,1,1000>(); run<R,T,1143,1250>(); run<R,T,5,9>(); run<R,T,255,256>(); run<R,T,257,256>(); run<R,T,65535,65536>(); run<R,T,65537,65536>(); run<R,T,32769,2>(); run<R,T,7,128>(); run<R,T,3,32768>(); run<R,T,2147483647,2>(); run<R,T,100003,100000>(); run<R,T,16777259,3>(); run<R,T,4294967295ULL,7>(); run<R,T,7,4294967295ULL>(); }
template <typename R> void tgts(){ facs<R,int8_t>(); facs<R,uint8_t>(); facs<R,int16_t>(); facs<R,uint16_t>(); facs<R,int32_t>(); facs<R,uint32_t>(); facs<R,int64_t>(); facs<R,uint64_t>(); }
int main(){ tgts<int8_t>(); tgts<uint8_t>(); tgts<int16_t>(); tgts<uint16_t>(); printf("total=%ld cleared=%ld bad=%ld\n",total,cleared,bad); }
