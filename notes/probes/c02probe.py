import random, sys
from fractions import Fraction as F
from table import *
rnd=random.Random(int(sys.argv[1]) if len(sys.argv)>1 else 1)
NAMES=[n for n in T if n not in ('Becquerel',)]   # twin of Hertz
def upow(u,e): return ({k:v*e for k,v in u[0].items()}, {k:v*e for k,v in u[1].items()})
def umul(a,b): return (mul(a[0],b[0]), mul(a[1],b[1]))
def clean(u): return ({k:v for k,v in u[0].items() if v}, {k:v for k,v in u[1].items() if v})
EXPS=[F(1),F(-1),F(2),F(-2),F(3),F(1,2),F(1,3),F(2,3),F(-1,2),F(0)]
def gen(depth, leaves):
    r=rnd.random()
    if depth==0 or r<0.3:
        n=rnd.choice(NAMES)
        # twin-free: avoid second leaf with same (dim,mag)
        for _ in range(20):
            key=(tuple(sorted(T[n][0].items())),tuple(sorted(T[n][1].items(), key=str)))
            if all(k!=key or nn==n for nn,k in leaves): break
            n=rnd.choice(NAMES)
        else:
            n=leaves[0][0]
        key=(tuple(sorted(T[n][0].items())),tuple(sorted(T[n][1].items(), key=str)))
        leaves.append((n,key))
        return (n+'{}', T[n])
    if r<0.55:
        a,ua=gen(depth-1,leaves); b,ub=gen(depth-1,leaves); return (f'({a} * {b})', clean(umul(ua,ub)))
    if r<0.75:
        a,ua=gen(depth-1,leaves); b,ub=gen(depth-1,leaves); return (f'({a} / {b})', clean(umul(ua,upow(ub,-1))))
    if r<0.9:
        a,ua=gen(depth-1,leaves); e=rnd.choice(EXPS)
        if e.denominator==1: return (f'pow<{e.numerator}>({a})', clean(upow(ua,e)))
        if e.numerator==1: return (f'root<{e.denominator}>({a})', clean(upow(ua,e)))
        return (f'pow<{e.numerator}>(root<{e.denominator}>({a}))', clean(upow(ua,e)))
    a,ua=gen(depth-1,leaves); n=rnd.choice([2,3,7,10,12,1000,254,127]); d=rnd.choice([1,1,3,5,100,9])
    pi=rnd.choice([0,0,0,1,-1])
    ms=f'mag<{n}>() / mag<{d}>()' + (' * Magnitude<Pi>{}' if pi==1 else ' / Magnitude<Pi>{}' if pi==-1 else '')
    return (f'({a} * ({ms}))', clean((ua[0], mul(ua[1], mag(n,d,pi)))))
out=['#include "au/au.hh"']+[f'#include "au/units/{hdr(n)}.hh"' for n in T]+['using namespace au;']
N=int(sys.argv[2]) if len(sys.argv)>2 else 60
for i in range(N):
    e,(d,m)=gen(rnd.choice([2,3,4]),[])
    out.append(f'#line {1000+i}\nstatic_assert(std::is_same<detail::DimT<decltype({e})>, {spell_dim(d)}>::value, "dim");')
    out.append(f'#line {1000+i}\nstatic_assert(std::is_same<detail::MagT<decltype({e})>, {spell_mag(m)}>::value, "mag");')
out.append('int main(){}')
open(f'c02_{sys.argv[1] if len(sys.argv)>1 else 1}.cc','w').write('\n'.join(out))
