#include "au/au.hh"
#include "au/units/meters.hh"
#include <cstdio>
#include <cstdint>
#include <limits>
#include <vector>
using namespace au;
typedef __int128 i128;
template <typename T> struct Prom { using type = decltype(std::declval<T>()*std::declval<T>()); };
static long bad=0, total=0;
template <typename T, std::uintmax_t N, std::uintmax_t D>
void run() {
  using P = typename Prom<T>::type;
  constexpr auto target = Meters{} * mag<D>() / mag<N>();  // ratio meters/target = N/D
  // reduce
  std::uintmax_t g = au::detail::gcd(N, D); std::uintmax_t n = N/g, d = D/g;
  constexpr std::uintmax_t g_ = au::detail::gcd(N, D); constexpr std::uintmax_t n_ = N/g_, d_ = D/g_;
  constexpr bool CONV = (d_==1) ? (n_ <= (std::uintmax_t)std::numeric_limits<T>::max()) : (n_==1) ? (d_ <= (std::uintmax_t)std::numeric_limits<T>::max()) : (n_ <= (std::uintmax_t)std::numeric_limits<P>::max() && d_ <= (std::uintmax_t)std::numeric_limits<P>::max());
  i128 tmin = std::numeric_limits<T>::lowest(), tmax = std::numeric_limits<T>::max();
  i128 pmin = std::numeric_limits<P>::lowest(), pmax = std::numeric_limits<P>::max();
  std::vector<i128> xs;
  auto add=[&](i128 c){ for (int k=-3;k<=3;++k){ i128 v=c+k; if(v>=tmin&&v<=tmax) xs.push_back(v);} };
  add(0); add(tmin); add(tmax); add(tmax/ (i128)n); add(tmin/(i128)n); add(pmax/(i128)n); add(pmin/(i128)n);
  add(tmax*(i128)d/(i128)n); add(tmin*(i128)d/(i128)n); add((i128)d); add(-(i128)d); add((i128)d*3); add((tmax/(i128)d)*(i128)d); add((tmin/(i128)d)*(i128)d);
  { unsigned long long s=88172645463325252ULL; for(int i=0;i<2000;++i){ s^=s<<13; s^=s>>7; s^=s<<17; i128 v=(i128)(T)s; xs.push_back(v); xs.push_back(v%( (i128)d*4+1)); i128 w=(v/(i128)d)*(i128)d; if(w>=tmin&&w<=tmax) xs.push_back(w);} }
  for (i128 xi : xs) { if(xi<tmin||xi>tmax) continue;
    T x = (T)xi; ++total;
    auto q = meters(x);
    bool ovf = will_conversion_overflow(q, target);
    bool tr = will_conversion_truncate(q, target);
    i128 prod = xi * (i128)n;
    bool exp_tr = (prod % (i128)d) != 0;
    bool exp_ovf;
    bool integer_mult = (d==1), integer_div = (n==1);
    // exact value x*n/d outside range
    // x*n/d > tmax <=> x*n > tmax*d ; < tmin <=> x*n < tmin*d
    bool final_out = (prod > tmax*(i128)d) || (prod < tmin*(i128)d);
    bool inter_out = false;
    if (!integer_mult && !integer_div) inter_out = (prod > pmax) || (prod < pmin);
    exp_ovf = final_out || inter_out;
    if (CONV && (ovf != exp_ovf || tr != exp_tr)) {
      if (bad < 4000) printf("MISMATCH T=%zu%c N=%llu D=%llu x=%lld ovf=%d exp=%d tr=%d exp=%d\n", sizeof(T), std::is_signed<T>::value?'s':'u',(unsigned long long)N,(unsigned long long)D,(long long)xi,ovf,exp_ovf,tr,exp_tr);
      ++bad;
    }
    if constexpr (CONV) if (!ovf && !tr) {
      T r = q.coerce_in(target);
      if ((i128)r * (i128)d != prod) { if (bad<40) printf("VALUE T=%zu N=%llu D=%llu x=%lld r=%lld\n", sizeof(T),(unsigned long long)N,(unsigned long long)D,(long long)xi,(long long)r); ++bad; }
    }
  }
}
template <typename T> void all() {
  run<T,1,1>(); run<T,2,1>(); run<T,1,2>(); run<T,3,2>(); run<T,2,3>(); run<T,127,1>(); run<T,128,1>(); run<T,1,127>();
  run<T,1000,1>(); run<T,1,1000>(); run<T,1143,1250>(); run<T,1250,1143>(); run<T,5,9>(); run<T,9,5>(); run<T,255,256>(); run<T,256,255>();
  run<T,65535,65536>(); run<T,65537,65536>(); run<T,32767,2>(); run<T,32769,2>(); run<T,3,32768>(); run<T,2147483647,2>(); run<T,2147483647,2147483646>();
  run<T,16777259,3>(); run<T,3,16777259>(); run<T,100003,100000>(); run<T,46341,46340>();run<T,7,128>(); run<T,129,128>(); run<T,129,2>();
}
template <typename T> void wide() { all<T>();
 run<T,4294967295ULL,4294967296ULL>(); run<T,4294967297ULL,4294967296ULL>(); run<T,2147483648ULL,3>(); run<T,3,2147483648ULL>(); run<T,4294967296ULL,1>(); run<T,1,4294967296ULL>();
 run<T,4611686018427387904ULL,3>(); run<T,3,4611686018427387904ULL>();  run<T,3037000500ULL,3037000499ULL>(); run<T,2147483648ULL,1>(); run<T,1,2147483648ULL>(); run<T,2147483647ULL,1>();
 run<T,1000000000ULL,1>(); run<T,1,1000000000ULL>(); run<T,1000000007ULL,1000000009ULL>(); run<T,1609344ULL,1000ULL>(); run<T,3600,1>(); run<T,1,3600>(); 
}
int main(){ wide<int32_t>(); wide<uint32_t>(); wide<int64_t>(); wide<uint64_t>(); printf("total=%ld bad=%ld\n", total, bad); }
