import random, sys, re, subprocess
from fractions import Fraction as F
from table import *
LAB={l.split('\t')[0]:l.rstrip('\n').split('\t')[1] for l in open('labels.tsv')}
TOK={v:k for k,v in LAB.items()}          # label -> unit name (Hz/Bq distinct labels)
PREFIX={'k':(1000,1),'m':(1,1000),'M':(10**6,1),'u':(1,10**6),'n':(1,10**9),'c':(1,100),'Ki':(1024,1)}
PFUN={'k':'kilo','m':'milli','M':'mega','u':'micro','n':'nano','c':'centi','Ki':'kibi'}
class P:
    def __init__(s,t,leaves): s.t=t; s.i=0; s.leaves=leaves   # leaves: dict label->(dim,mag) for this case (incl. prefixed)
    def peek(s,x): return s.t.startswith(x,s.i)
    def eat(s,x):
        assert s.peek(x),(s.t,s.i,x); s.i+=len(x)
    def label(s):
        if s.peek('1 / '):
            s.eat('1 / '); d=s.prodgroup(); return upow(d,F(-1))
        n=s.prodgroup()
        if s.peek(' / '):
            s.eat(' / '); d=s.prodgroup(); return clean(umul(n,upow(d,F(-1))))
        return n
    def prodgroup(s):
        # "(" a * b ")" or bare product
        if s.peek('(') and not s.peek('(UNLABELED'):
            # could be parenthesised product
            save=s.i; s.eat('(')
            try:
                r=s.product(); s.eat(')'); return r
            except AssertionError:
                s.i=save
        return s.product()
    def product(s):
        r=s.factor()
        while s.peek(' * '):
            s.eat(' * '); r=clean(umul(r,s.factor()))
        return r
    def factor(s):
        a=s.atom()
        if s.peek('^'):
            s.eat('^'); m=re.match(r'\((-?\d+)/(\d+)\)|\((-\d+)\)|(\d+)', s.t[s.i:]); assert m,(s.t,s.i)
            s.i+=m.end()
            e=F(int(m.group(1)),int(m.group(2))) if m.group(1) else F(int(m.group(3) or m.group(4)))
            a=clean(upow(a,e))
        return a
    def atom(s):
        if s.peek('[UNLABELED UNIT]'): raise AssertionError('unlabeled')
        if s.peek('['):
            s.eat('['); m=re.match(r'\((\d+) / (\d+)\) |(\d+) ', s.t[s.i:]); assert m,('mag',s.t,s.i)
            s.i+=m.end(); n,d=(int(m.group(1)),int(m.group(2))) if m.group(1) else (int(m.group(3)),1)
            u=s.label(); s.eat(']'); return clean((u[0], mul(u[1], mag(n,d))))
        if s.peek('EQUIV{'):
            s.eat('EQUIV{'); us=[s.label()]
            while s.peek(', '): s.eat(', '); us.append(s.label())
            s.eat('}'); assert all(u==us[0] for u in us),('equiv members differ',us); return us[0]
        # leaf: longest match among this case's leaf labels
        best=None
        for lab in s.leaves:
            if s.peek(lab) and (best is None or len(lab)>len(best)): best=lab
        assert best is not None,('no leaf',s.t,s.i)
        s.i+=len(best); return s.leaves[best]
def upow(u,e): return ({k:v*e for k,v in u[0].items()}, {k:v*e for k,v in u[1].items()})
def umul(a,b): return (mul(a[0],b[0]), mul(a[1],b[1]))
def clean(u): return ({k:v for k,v in u[0].items() if v}, {k:v for k,v in u[1].items() if v})
rnd=random.Random(int(sys.argv[1])); N=int(sys.argv[2])
NAMES=[n for n in T if n not in ('Becquerel','Unos')]
EXPS=[F(1),F(-1),F(2),F(-2),F(3),F(1,2),F(1,3),F(2,3),F(-1,2)]
def gen(depth, leaves, used):
    r=rnd.random()
    if depth==0 or r<0.3:
        for _ in range(50):
            n=rnd.choice(NAMES); pf=rnd.choice([None,None,None]+list(PREFIX))
            u=T[n] if pf is None else clean((T[n][0], mul(T[n][1], mag(*PREFIX[pf]))))
            key=(tuple(sorted(u[0].items())),tuple(sorted(u[1].items(),key=str)))
            lab=(pf or '')+LAB[n]
            if lab in leaves and leaves[lab]!=u: continue      # ambiguous token
            if any(k==key and l!=lab for l,k in used): continue # twin
            if any((l.startswith(lab) or lab.startswith(l)) and l!=lab for l,_ in used): pass
            break
        leaves[lab]=u; used.append((lab,key))
        return ((f'{n}{{}}' if pf is None else f'{PFUN[pf]}({n}{{}})'), u)
    if r<0.55:
        a,ua=gen(depth-1,leaves,used); b,ub=gen(depth-1,leaves,used); return (f'({a} * {b})', clean(umul(ua,ub)))
    if r<0.75:
        a,ua=gen(depth-1,leaves,used); b,ub=gen(depth-1,leaves,used); return (f'({a} / {b})', clean(umul(ua,upow(ub,F(-1)))))
    if r<0.88:
        a,ua=gen(depth-1,leaves,used); e=rnd.choice(EXPS)
        if e.denominator==1: return (f'pow<{e.numerator}>({a})', clean(upow(ua,e)))
        if e.numerator==1: return (f'root<{e.denominator}>({a})', clean(upow(ua,e)))
        return (f'pow<{e.numerator}>(root<{e.denominator}>({a}))', clean(upow(ua,e)))
    a,ua=gen(depth-1,leaves,used); n=rnd.choice([2,3,7,10,12,1000,254,127,2**40+15]); d=rnd.choice([1,1,3,5,100,9])
    from math import gcd
    g=gcd(n,d); n//=g; d//=g
    return (f'({a} * (mag<{n}>() / mag<{d}>()))', clean((ua[0], mul(ua[1], mag(n,d)))))
cases=[]
out=['#include "au/au.hh"','#include <cstdio>','#include <cstring>']+[f'#include "au/units/{hdr(n)}.hh"' for n in T]+['using namespace au;','int main(){']
for i in range(N):
    leaves={}; e,u=gen(rnd.choice([1,2,3,4]),leaves,[])
    cases.append((e,u,leaves))
    out.append(f'  {{ const auto& l = unit_label({e}); std::printf("%d\\t%zu\\t%zu\\t%s\\n", {i}, sizeof(l), std::strlen(l), l); }}')
out.append('}')
src=f'c18_{sys.argv[1]}.cc'; open(src,'w').write('\n'.join(out))
subprocess.check_call(['g++','-std=c++14','-fsanitize=address','-I/repo/au/code',src,'-o',src[:-3]])
res=subprocess.check_output(['./'+src[:-3]]).decode()
bad=0; ok=0
for line in res.splitlines():
    i,sz,ln,lab=line.split('\t'); i=int(i); e,u,leaves=cases[i]
    if int(sz)!=int(ln)+1: print('SIZE',line); bad+=1
    try:
        p=P(lab,leaves); got=p.label(); assert p.i==len(lab),('trailing',lab,p.i)
        if got!=clean(u): print('DENOTE', e, '->', repr(lab), got, 'expected', u); bad+=1
        else: ok+=1
    except AssertionError as ex:
        print('PARSE', e, '->', repr(lab), ex); bad+=1
print('seed',sys.argv[1],'ok',ok,'bad',bad)
