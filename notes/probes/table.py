# Throw-away validation of an independently written unit table against the library (design-time probe).
from fractions import Fraction as F
import sympy
BASE=['Length','Mass','Time','Current','Temperature','Angle','Information','AmountOfSubstance','LuminousIntensity']
def dim(**kw): return {k:F(v) for k,v in kw.items() if v}
def mag(num=1, den=1, pi=0):
    m={}
    for p,e in sympy.factorint(num).items(): m[p]=m.get(p,0)+F(e)
    for p,e in sympy.factorint(den).items(): m[p]=m.get(p,0)-F(e)
    if pi: m['pi']=F(pi)
    return {k:v for k,v in m.items() if v}
def mul(a,b,s=1):
    r=dict(a)
    for k,v in b.items():
        r[k]=r.get(k,0)+s*v
    return {k:v for k,v in r.items() if v}
def U(d,m): return (d,m)
def prod(*us):
    d,m={},{}
    for (u,e) in us:
        d=mul(d,{k:v*e for k,v in u[0].items()}); m=mul(m,{k:v*e for k,v in u[1].items()})
    return (d,m)
def scale(u,num=1,den=1,pi=0): return (u[0], mul(u[1], mag(num,den,pi)))
m_=U(dim(Length=1),{}); g=U(dim(Mass=1),{}); s=U(dim(Time=1),{}); A=U(dim(Current=1),{}); K=U(dim(Temperature=1),{})
rad=U(dim(Angle=1),{}); bit=U(dim(Information=1),{}); mol=U(dim(AmountOfSubstance=1),{}); cd=U(dim(LuminousIntensity=1),{})
kg=scale(g,1000)
T={}
T['Meters']=m_; T['Grams']=g; T['Seconds']=s; T['Amperes']=A; T['Kelvins']=K; T['Radians']=rad; T['Bits']=bit; T['Moles']=mol; T['Candelas']=cd
T['Inches']=scale(m_,254,10000); T['Feet']=scale(m_,3048,10000); T['Yards']=scale(m_,9144,10000); T['Miles']=scale(m_,1609344,1000)
T['Fathoms']=scale(m_,18288,10000); T['Furlongs']=scale(m_,201168,1000); T['NauticalMiles']=scale(m_,1852)
T['Minutes']=scale(s,60); T['Hours']=scale(s,3600); T['Days']=scale(s,86400)
T['Hertz']=prod((s,-1)); T['Becquerel']=prod((s,-1))
T['Degrees']=scale(rad,1,180,1); T['Arcminutes']=scale(rad,1,180*60,1); T['Arcseconds']=scale(rad,1,180*3600,1); T['Revolutions']=scale(rad,2,1,1)
T['Steradians']=prod((rad,2))
T['Bytes']=scale(bit,8)
T['Newtons']=prod((kg,1),(m_,1),(s,-2)); T['Joules']=prod((T['Newtons'],1),(m_,1)); T['Watts']=prod((T['Joules'],1),(s,-1))
T['Pascals']=prod((T['Newtons'],1),(m_,-2)); T['Bars']=scale(T['Pascals'],100000)
T['Coulombs']=prod((A,1),(s,1)); T['Volts']=prod((T['Watts'],1),(A,-1)); T['Ohms']=prod((T['Volts'],1),(A,-1)); T['Siemens']=prod((T['Ohms'],-1))
T['Farads']=prod((T['Coulombs'],1),(T['Volts'],-1)); T['Webers']=prod((T['Volts'],1),(s,1)); T['Tesla']=prod((T['Webers'],1),(m_,-2)); T['Henries']=prod((T['Webers'],1),(A,-1))
T['Grays']=prod((T['Joules'],1),(kg,-1)); T['Katals']=prod((mol,1),(s,-1))
T['Lumens']=prod((cd,1),(T['Steradians'],1)); T['Lux']=prod((T['Lumens'],1),(m_,-2))
T['Liters']=scale(prod((m_,3)),1,1000)
T['USGallons']=scale(prod((T['Inches'],3)),231); T['USQuarts']=scale(prod((T['Inches'],3)),231,4); T['USPints']=scale(prod((T['Inches'],3)),231,8)
T['PoundsMass']=scale(g,45359237,100000)
T['StandardGravity']=scale(prod((m_,1),(s,-2)),980665,100000)
T['PoundsForce']=prod((T['PoundsMass'],1),(T['StandardGravity'],1))
T['Slugs']=prod((T['PoundsForce'],1),(s,2),(T['Feet'],-1))
T['Knots']=prod((T['NauticalMiles'],1),(T['Hours'],-1))
T['Unos']=({},{}); T['Percent']=scale(T['Unos'],1,100)
T['Celsius']=K; T['Fahrenheit']=scale(K,5,9)
HDR={'Becquerel':'becquerel','Hertz':'hertz','Lux':'lux','Tesla':'tesla','Siemens':'siemens','NauticalMiles':'nautical_miles','PoundsForce':'pounds_force','PoundsMass':'pounds_mass','StandardGravity':'standard_gravity','USGallons':'us_gallons','USPints':'us_pints','USQuarts':'us_quarts'}
def hdr(n): return HDR.get(n, n.lower())
def bp(base, e):
    e=F(e)
    if e==1: return base
    if e.denominator==1: return f'Pow<{base}, {e.numerator}>'
    return f'RatioPow<{base}, {e.numerator}, {e.denominator}>'
def spell_dim(d):
    return 'Dimension<'+', '.join(bp('base_dim::'+b, d[b]) for b in BASE if b in d)+'>'
def spell_mag(m):
    keys=sorted(m, key=lambda k: 3.14159 if k=='pi' else k)
    return 'Magnitude<'+', '.join(bp('Pi' if k=='pi' else f'Prime<{k}>', m[k]) for k in keys)+'>'
if __name__=='__main__':
    assert len(T)==57, len(T)
    out=['#include "au/au.hh"']+[f'#include "au/units/{hdr(n)}.hh"' for n in T]+['using namespace au;']
    for i,(n,(d,m)) in enumerate(T.items()):
        out.append(f'static_assert(std::is_same<detail::DimT<{n}>, {spell_dim(d)}>::value, "dim {n}");')
        out.append(f'static_assert(std::is_same<detail::MagT<{n}>, {spell_mag(m)}>::value, "mag {n}");')
    out.append('int main(){}')
    open('table.cc','w').write('\n'.join(out))
