#include "au/utility/factoring.hh"
#include <cstdio>
#include <vector>
#include <cstdint>
using namespace au::detail;
typedef unsigned __int128 u128;
static uint64_t mulmod(uint64_t a,uint64_t b,uint64_t n){ return (u128)a*b%n; }
static uint64_t powmod(uint64_t a,uint64_t e,uint64_t n){ uint64_t r=1%n; a%=n; while(e){ if(e&1) r=mulmod(r,a,n); a=mulmod(a,a,n); e>>=1;} return r; }
static bool mr(uint64_t n,uint64_t a){ if(n%a==0) return n==a; uint64_t d=n-1; int s=0; while(!(d&1)){d>>=1;++s;} uint64_t x=powmod(a,d,n); if(x==1||x==n-1) return true; for(int i=1;i<s;++i){ x=mulmod(x,x,n); if(x==n-1) return true;} return false; }
static bool isprime(uint64_t n){ if(n<2) return false; for(uint64_t p:{2ull,3ull,5ull,7ull,11ull,13ull,17ull,19ull,23ull,29ull,31ull,37ull}){ if(n%p==0) return n==p; } for(uint64_t a:{2ull,325ull,9375ull,28178ull,450775ull,9780504ull,1795265022ull}){ if(a%n==0) continue; if(!mr(n,a%n)) return false;} return true; }
int main(){ setvbuf(stdout,nullptr,_IONBF,0);
  const uint64_t LIM=1ull<<26; std::vector<bool> comp(LIM,false); comp[0]=comp[1]=true; for(uint64_t i=2;i*i<LIM;++i) if(!comp[i]) for(uint64_t j=i*i;j<LIM;j+=i) comp[j]=true;
  long bad=0, sprp2=0, slprp=0;
  for(uint64_t n=0;n<LIM;++n){ bool p=!comp[n]; if(is_prime(n)!=p){ if(bad<10) printf("is_prime(%llu) wrong\n",(unsigned long long)n); ++bad; }
    if(n>1){ uint64_t f=find_prime_factor(n); if(f<2||n%f||comp[f]){ if(bad<10) printf("factor(%llu)=%llu\n",(unsigned long long)n,(unsigned long long)f); ++bad; } }
    if(n>3 && (n&1) && comp[n]){ if(miller_rabin(2,n)==PrimeResult::PROBABLY_PRIME) ++sprp2; if(strong_lucas(n)==PrimeResult::PROBABLY_PRIME) ++slprp; }
  }
  printf("exhaustive<2^26 bad=%ld sprp2=%ld slprp=%ld\n",bad,sprp2,slprp);
  // adversarial 64-bit: families
  long tested=0, psp=0;
  uint64_t s=0x9e3779b97f4a7c15ull; auto rnd=[&]{ s^=s<<13; s^=s>>7; s^=s<<17; return s; };
  for(int it=0; it<60000; ++it){ uint64_t p = (rnd() % ((1ull<<31)-3)) | 1; if(p<3||!isprime(p)) continue; for(uint64_t k=2;k<=6;++k){ uint64_t q=k*(p-1)+1; if(!isprime(q)) continue; u128 nn=(u128)p*q; if(nn>>64) continue; uint64_t n=(uint64_t)nn; ++tested; bool sp=mr(n,2); if(sp) ++psp; if(is_prime(n)){ printf("WRONG prime %llu\n",(unsigned long long)n); ++bad;} uint64_t f=find_prime_factor(n); if(f!=p&&f!=q){ printf("WRONG factor %llu -> %llu\n",(unsigned long long)n,(unsigned long long)f); ++bad;} } }
  printf("family tested=%ld strong-psp2=%ld bad=%ld\n",tested,psp,bad);
  for(uint64_t n : {18446744073709551557ull, 18446744073709551615ull, 18446744073709551556ull, 9223372036854775783ull, 4611686014132420609ull /*(2^31-1)^2*/, 18446744030759878681ull /*4294967291^2*/, 2305843009213693951ull}){ printf("n=%llu is_prime=%d oracle=%d factor=%llu\n",(unsigned long long)n,(int)is_prime(n),(int)isprime(n),(unsigned long long)find_prime_factor(n)); }
  // mod helpers
  long mbad=0; for(int it=0;it<20000000;++it){ uint64_t n=rnd(); if(it%3==0) n|=1ull<<63; if(it%5==0) n=~0ull-(rnd()%1000); if(n<2) continue; uint64_t a=rnd()%n,b=rnd()%n; if(it%7==0) a=n-1; if(it%11==0) b=n-1;
    if(mul_mod(a,b,n)!=(uint64_t)((u128)a*b%n) || add_mod(a,b,n)!=(uint64_t)(((u128)a+b)%n) || sub_mod(a,b,n)!=(uint64_t)(((u128)a+n-b)%n)) { if(mbad<5) printf("mod bad a=%llu b=%llu n=%llu\n",(unsigned long long)a,(unsigned long long)b,(unsigned long long)n); ++mbad; }
    if(n&1){ uint64_t h=half_mod_odd(a,n); if(((u128)h*2)%n!=a){ if(mbad<5) printf("half bad\n"); ++mbad; } }
    if(it%64==0){ uint64_t e=rnd(); if(pow_mod(a,e,n)!=powmod(a,e,n)){ if(mbad<5) printf("pow bad\n"); ++mbad; } } }
  printf("mod bad=%ld\n",mbad);
}
