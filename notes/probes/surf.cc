#include "au/au.hh"
#include "au/io.hh"
#include "au/units/meters.hh"
#include "au/units/feet.hh"
#include "au/units/inches.hh"
#include "au/units/seconds.hh"
#include "au/units/hertz.hh"
#include "au/units/celsius.hh"
#include "au/units/degrees.hh"
#include <iostream>
#include <cstdint>
using namespace au;
using R = REP;
int main(int argc, char**){
  R x = static_cast<R>(argc + 2), y = static_cast<R>(argc + 4);
  auto a = meters(x); auto b = meters(y); auto f = feet(x); auto i = inches(y);
#if CASE==1
  std::cout << (a + b) << "\n";
#elif CASE==2
  std::cout << (a - b) << "\n";
#elif CASE==3
  std::cout << (a * b) << "\n";
#elif CASE==4
  std::cout << (b / a) << "\n";
#elif CASE==5
  std::cout << (b % a) << "\n";
#elif CASE==6
  std::cout << (-a) << "\n";
#elif CASE==7
  std::cout << (+a) << "\n";
#elif CASE==8
  std::cout << (a * R{2}) << (R{2} * a) << (a / R{2}) << "\n";
#elif CASE==9
  a += b; a -= b; a *= R{2}; a /= R{2}; std::cout << a << "\n";
#elif CASE==10
  std::cout << (a == b) << (a != b) << (a < b) << (a <= b) << (a > b) << (a >= b) << "\n";
#elif CASE==11
  std::cout << (f == i) << (f < i) << (f + i) << (f - i) << "\n";
#elif CASE==12
  std::cout << (f % i) << "\n";
#elif CASE==13
  std::cout << (a == ZERO) << (ZERO < a) << (a + ZERO) << (a - ZERO) << "\n";
#elif CASE==14
  std::cout << min(a, b) << max(a, b) << clamp(a, b, b) << "\n";
#elif CASE==15
  std::cout << min(f, i) << max(f, i) << "\n";
#elif CASE==16
  std::cout << f.coerce_in(inches) << " " << f.coerce_as(inches) << " " << i.coerce_in(feet) << "\n";
#elif CASE==17
  std::cout << f.in(inches) << "\n";
#elif CASE==18
  std::cout << is_conversion_lossy(f, inches) << will_conversion_overflow(f, meters) << will_conversion_truncate(i, feet) << "\n";
#elif CASE==19
  std::cout << is_conversion_lossy<int>(f, inches) << is_conversion_lossy<R>(feet(1.5), inches) << "\n";
#elif CASE==20
  std::cout << int_pow<2>(a) << " " << sqrt(a) << " " << abs(a) << "\n";
#elif CASE==21
  std::cout << round_as(feet, i) << " " << floor_in(feet, i) << " " << ceil_as<int>(feet, i) << "\n";
#elif CASE==22
  std::cout << inverse_as(nano(seconds), kilo(hertz)(x)) << "\n";
#elif CASE==23
  std::cout << inverse_as<int>(nano(seconds), kilo(hertz)(x)) << "\n";
#elif CASE==24
  std::cout << celsius_pt(x) << " " << (celsius_pt(y) - celsius_pt(x)) << " " << (celsius_pt(x) + celsius_qty(y)) << (celsius_pt(x) < celsius_pt(y)) << "\n";
#elif CASE==25
  std::cout << celsius_pt(x).coerce_in(kelvins_pt) << " " << celsius_pt(x).coerce_as<int>(milli(kelvins_pt)) << "\n";
#elif CASE==26
  std::cout << (celsius_pt(x) < kelvins_pt(y)) << "\n";
#elif CASE==27
  std::cout << (hertz(x) * seconds(y)) << " " << (a / unblock_int_div(seconds(y))) << "\n";
#elif CASE==28
  std::cout << sin(degrees(x)) << " " << arctan2(a, b) << " " << hypot(a, b) << " " << fmod(a, b) << "\n";
#elif CASE==29
  std::cout << std::common_type_t<decltype(f), decltype(i)>{} << "\n";
#elif CASE==30
  QuantityD<Meters> q = a; Quantity<Meters, R> q2 = a; std::cout << q << q2 << "\n";
#elif CASE==31
  std::cout << (a <=> b == 0) << (f <=> i < 0) << "\n";
#elif CASE==32
  std::cout << rep_cast<int>(a) << rep_cast<R>(meters(3)) << rep_cast<R>(meters(3.7)) << "\n";
#elif CASE==33
  constexpr auto c = make_constant(meters * mag<3>()); std::cout << (x * c) << (a * c) << c.as<R>(meters) << "\n";
#elif CASE==34
  std::cout << as_raw_number(a / b) << " " << (a / b) << "\n";
#elif CASE==35
  std::cout << a.data_in(meters) << " " << from_nttp(decltype(a)::NTTP{}) << "\n";
#endif
}
