#include "au/au.hh"
#include "au/units/meters.hh"
#include "au/units/seconds.hh"
#include "au/constants/speed_of_light.hh"
#include <cstdint>
using namespace au;
constexpr auto c255 = make_constant(meters * mag<255>());
constexpr auto c256 = make_constant(meters * mag<256>());
constexpr auto chalf = make_constant(meters / mag<2>());
constexpr auto cpi = make_constant(meters * Magnitude<Pi>{});
constexpr auto cmax = make_constant(meters * mag<18446744073709551615ULL>());
static_assert(c255.can_store_value_in<uint8_t>(meters) && !c256.can_store_value_in<uint8_t>(meters) && !c255.can_store_value_in<int8_t>(meters), "");
static_assert(c255.as<uint8_t>(meters).in(meters) == 255, "");
static_assert(!chalf.can_store_value_in<int>(meters) && chalf.can_store_value_in<float>(meters) && chalf.can_store_value_in<int>(meters / mag<2>()) && chalf.can_store_value_in<int>(meters / mag<4>()), "");
static_assert(chalf.in<int>(meters/mag<4>()) == 2, "");
static_assert(!cpi.can_store_value_in<int>(meters) && cpi.can_store_value_in<double>(meters), "");
static_assert(cmax.can_store_value_in<uint64_t>(meters) && !cmax.can_store_value_in<int64_t>(meters) && cmax.in<uint64_t>(meters) == 18446744073709551615ULL, "");
static_assert(SPEED_OF_LIGHT.can_store_value_in<int32_t>(meters/second) && !SPEED_OF_LIGHT.can_store_value_in<int16_t>(meters/second) && !SPEED_OF_LIGHT.can_store_value_in<int32_t>(milli(meters)/second) && SPEED_OF_LIGHT.can_store_value_in<int64_t>(milli(meters)/second), "");
static_assert((3 * c255).in(meters * mag<255>()) == 3, "");
static_assert(std::is_same<decltype(3 * c255), Quantity<decltype(Meters{}*mag<255>()), int>>::value, "");
static_assert((2.5 / c255).in(inverse(meters * mag<255>())) == 2.5, "");
static_assert((meters(int8_t{5}) * c255).in(squared(meters) * mag<255>()) == 5, "");
static_assert((c255 / 4.0).in(meters * mag<255>()) == 0.25, "");
#if CASE==1
constexpr auto bad = c256.as<uint8_t>(meters);
#elif CASE==2
constexpr Quantity<Meters, int> bad = chalf;
#elif CASE==3
constexpr auto bad = c255 / 4;
#elif CASE==4
constexpr auto bad = c255 / meters(4);
#elif CASE==5
constexpr auto bad = SPEED_OF_LIGHT.in<int>(meters);
#elif CASE==6
constexpr Quantity<Meters, int> good = c255; static_assert(good.in(meters)==255,"");
constexpr QuantityD<Meters> good2 = cpi;
#endif
int main(){}
