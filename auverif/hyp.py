"""Hypothesis glue: every random choice at program level is drawn from Hypothesis strategies.

run_batches(ctx, case_strategy, judge, n_examples, batch) runs a seeded @given test whose single
argument is a fixed-size list of cases; `judge(list_of_cases)` judges all cases of the example in
parallel (compiler pool) and returns one verdict per case: None (ok) or a failure dict
{'what':..., 'replay':...}.  Verdicts are cached by canonical case key, so during shrinking only the
case that changed is recompiled.  On failure Hypothesis shrinks natively; the shrink phase is bounded
by a wall-clock budget after which unseen cases are no longer evaluated (they count as passing, which
only stops further shrinking -- it can never create or hide a failure of the final example).
"""
import json
import time

import hypothesis
from hypothesis import HealthCheck, Phase, given, seed, settings
from hypothesis import strategies as st


def case_key(case):
    return json.dumps(case, sort_keys=True, default=str)


class Failed(Exception):
    pass


def run_batches(ctx, case_strategy, judge, n_examples, batch, shrink_budget_s=None, label="", time_budget_s=None):
    cache = {}
    state = {"first_fail_t": None, "best": None, "examples": 0}
    if shrink_budget_s is None:
        shrink_budget_s = 45 if ctx.quick() else 240
    t_start = time.time()

    def evaluate(cases):
        keys = [case_key(c) for c in cases]
        todo = {}
        for k, c in zip(keys, cases):
            if k not in cache and k not in todo:
                todo[k] = c
        if todo:
            if state["first_fail_t"] is not None and time.time() - state["first_fail_t"] > shrink_budget_s:
                for k in todo:
                    cache[k] = ("skipped", None)
            elif state["first_fail_t"] is None and time_budget_s is not None and time.time() - t_start > time_budget_s:
                for k in todo:
                    cache[k] = ("skipped", None)
                ctx.bump("skipped_time_budget", len(todo))
            else:
                tk = list(todo.keys())
                verdicts = judge([todo[k] for k in tk])
                for k, v in zip(tk, verdicts):
                    cache[k] = ("judged", v)
        return [(k, cache[k]) for k in keys]

    @seed(ctx.seed * 1000003 + (sum(map(ord, ctx.prop + label)) % 9973))
    @settings(max_examples=n_examples, database=None, deadline=None, derandomize=False,
              report_multiple_bugs=False, suppress_health_check=list(HealthCheck),
              phases=[Phase.generate, Phase.shrink], print_blob=False)
    @given(st.lists(case_strategy, min_size=batch, max_size=batch))
    def test(cases):
        state["examples"] += 1
        res = evaluate(cases)
        bad = [(k, v) for k, (status, v) in res if status == "judged" and v is not None]
        if bad:
            if state["first_fail_t"] is None:
                state["first_fail_t"] = time.time()
            k, v = min(bad, key=lambda kv: len(kv[0]))
            if state["best"] is None or len(k) <= len(state["best"][0]):
                state["best"] = (k, v)
            raise Failed(v["what"])

    try:
        test()
    except Failed:
        pass
    except hypothesis.errors.Flaky as e:
        print("note: hypothesis reported Flaky: %s" % str(e)[:300])
        if state["best"] is None:
            raise
    except BaseException as e:  # hypothesis may wrap
        print("note: hypothesis raised %s: %s" % (type(e).__name__, str(e)[:300]))
        if state["best"] is None:
            raise
    if state["best"] is not None:
        k, v = state["best"]
        # all distinct failing cases seen (root causes may differ); the minimal one first
        ctx.fail(v["what"], v["replay"], detail={"case": json.loads(k)})
        n = 0
        for kk, (status, vv) in cache.items():
            if status == "judged" and vv is not None and kk != k and n < 3:
                ctx.fail(vv["what"], vv["replay"], detail={"case": json.loads(kk)})
                n += 1
    ctx.bump("hypothesis_examples" + ("_" + label if label else ""), state["examples"])
    return cache


def collect(ctx, strategy, n, label=""):
    """Draw n values from a strategy under the run's seed (generation only; judged elsewhere)."""
    out = []

    @seed(ctx.seed * 1000003 + 77 + (sum(map(ord, ctx.prop + label)) % 9973))
    @settings(max_examples=n, database=None, deadline=None, derandomize=False,
              suppress_health_check=list(HealthCheck), phases=[Phase.generate], print_blob=False)
    @given(strategy)
    def test(v):
        out.append(v)

    test()
    # hypothesis may repeat examples; keep order, drop exact duplicates
    seen = set()
    res = []
    for v in out:
        k = case_key(v)
        if k not in seen:
            seen.add(k)
            res.append(v)
    return res
