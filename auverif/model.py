"""Exact, independent model of Au's unit algebra.

Dimension  = {base-dimension name: Fraction exponent}
Magnitude  = {prime (int) or 'pi': Fraction exponent}
Unit       = U(dim, mag, origin) ; origin is a Fraction (in base units of that dimension) or 0

The unit table below is written down from the physical definitions of the units relative to the
library's base units (m, g, s, A, K, rad, bit, mol, cd).  It is NOT parsed from Au's headers.
"""
from fractions import Fraction as F

from .reps import factorint

BASE_DIMS = ["Length", "Mass", "Time", "Current", "Temperature", "Angle", "Information", "AmountOfSubstance",
             "LuminousIntensity"]
PI_ORDER = F(314159265358979, 10 ** 14)


def _clean(d):
    return {k: v for k, v in d.items() if v != 0}


def mag_of(num=1, den=1, pi=0):
    m = {}
    for p, e in factorint(num).items():
        m[p] = m.get(p, 0) + F(e)
    for p, e in factorint(den).items():
        m[p] = m.get(p, 0) - F(e)
    if pi:
        m["pi"] = F(pi)
    return _clean(m)


def mmul(a, b, s=1):
    r = dict(a)
    for k, v in b.items():
        r[k] = r.get(k, 0) + F(s) * v
    return _clean(r)


def mpow(a, e):
    return _clean({k: v * F(e) for k, v in a.items()})


def mag_is_rational(m):
    return all(k != "pi" and v.denominator == 1 for k, v in m.items())


def mag_is_integer(m):
    return all(k != "pi" and v.denominator == 1 and v > 0 for k, v in m.items())


def mag_fraction(m):
    """exact Fraction value of a rational magnitude"""
    assert mag_is_rational(m)
    r = F(1)
    for p, e in m.items():
        r *= F(p) ** int(e)
    return r


def mag_float(m):
    """high-precision decimal value (mpmath) of any magnitude"""
    import mpmath
    mpmath.mp.dps = 80
    r = mpmath.mpf(1)
    for k, e in m.items():
        b = mpmath.pi if k == "pi" else mpmath.mpf(k)
        r *= mpmath.power(b, mpmath.mpf(e.numerator) / e.denominator)
    return r


def mag_key(m):
    return tuple(sorted(((str(k), str(v)) for k, v in m.items())))


def dim_key(d):
    return tuple(sorted((k, str(v)) for k, v in d.items()))


class U:
    __slots__ = ("dim", "mag", "origin")

    def __init__(self, dim, mag, origin=F(0)):
        self.dim, self.mag, self.origin = _clean(dim), _clean(mag), origin

    def key(self):
        return (dim_key(self.dim), mag_key(self.mag))

    def pkey(self):
        return (dim_key(self.dim), mag_key(self.mag), str(self.origin))

    def __mul__(self, o):
        return U(mmul(self.dim, o.dim), mmul(self.mag, o.mag))

    def __truediv__(self, o):
        return U(mmul(self.dim, o.dim, -1), mmul(self.mag, o.mag, -1))

    def pow(self, e):
        return U(mpow(self.dim, e), mpow(self.mag, e))

    def scaled(self, m):
        return U(self.dim, mmul(self.mag, m), self.origin)

    def same_dim(self, o):
        return self.dim == o.dim

    def ratio(self, o):
        """magnitude of self/o (same dimension assumed)"""
        return mmul(self.mag, o.mag, -1)


def _b(name):
    return U({name: F(1)}, {})


def _scale(u, num=1, den=1, pi=0):
    return U(u.dim, mmul(u.mag, mag_of(num, den, pi)), u.origin)


def _build_table():
    m, g, s, A, K, rad, bit, mol, cd = [_b(n) for n in BASE_DIMS]
    kg = _scale(g, 1000)
    T = {}
    T["Meters"], T["Grams"], T["Seconds"], T["Amperes"], T["Kelvins"] = m, g, s, A, K
    T["Radians"], T["Bits"], T["Moles"], T["Candelas"] = rad, bit, mol, cd
    T["Inches"] = _scale(m, 254, 10000)
    T["Feet"] = _scale(m, 3048, 10000)
    T["Yards"] = _scale(m, 9144, 10000)
    T["Miles"] = _scale(m, 1609344, 1000)
    T["Fathoms"] = _scale(m, 18288, 10000)
    T["Furlongs"] = _scale(m, 201168, 1000)
    T["NauticalMiles"] = _scale(m, 1852)
    T["Minutes"] = _scale(s, 60)
    T["Hours"] = _scale(s, 3600)
    T["Days"] = _scale(s, 86400)
    T["Hertz"] = s.pow(-1)
    T["Becquerel"] = s.pow(-1)
    T["Degrees"] = _scale(rad, 1, 180, 1)
    T["Arcminutes"] = _scale(rad, 1, 180 * 60, 1)
    T["Arcseconds"] = _scale(rad, 1, 180 * 3600, 1)
    T["Revolutions"] = _scale(rad, 2, 1, 1)
    T["Steradians"] = rad.pow(2)
    T["Bytes"] = _scale(bit, 8)
    T["Newtons"] = kg * m / s.pow(2)
    T["Joules"] = T["Newtons"] * m
    T["Watts"] = T["Joules"] / s
    T["Pascals"] = T["Newtons"] / m.pow(2)
    T["Bars"] = _scale(T["Pascals"], 100000)
    T["Coulombs"] = A * s
    T["Volts"] = T["Watts"] / A
    T["Ohms"] = T["Volts"] / A
    T["Siemens"] = T["Ohms"].pow(-1)
    T["Farads"] = T["Coulombs"] / T["Volts"]
    T["Webers"] = T["Volts"] * s
    T["Tesla"] = T["Webers"] / m.pow(2)
    T["Henries"] = T["Webers"] / A
    T["Grays"] = T["Joules"] / kg
    T["Katals"] = mol / s
    T["Lumens"] = cd * T["Steradians"]
    T["Lux"] = T["Lumens"] / m.pow(2)
    T["Liters"] = _scale(m.pow(3), 1, 1000)
    T["USGallons"] = _scale(T["Inches"].pow(3), 231)
    T["USQuarts"] = _scale(T["Inches"].pow(3), 231, 4)
    T["USPints"] = _scale(T["Inches"].pow(3), 231, 8)
    T["PoundsMass"] = _scale(g, 45359237, 100000)
    T["StandardGravity"] = _scale(m / s.pow(2), 980665, 100000)
    T["PoundsForce"] = T["PoundsMass"] * T["StandardGravity"]
    T["Slugs"] = T["PoundsForce"] * s.pow(2) / T["Feet"]
    T["Knots"] = T["NauticalMiles"] / T["Hours"]
    T["Unos"] = U({}, {})
    T["Percent"] = _scale(T["Unos"], 1, 100)
    T["Celsius"] = U(K.dim, K.mag, F(27315, 100))
    fah = _scale(K, 5, 9)
    T["Fahrenheit"] = U(fah.dim, fah.mag, F(45967, 100) * F(5, 9))
    return T


TABLE = _build_table()

# spellings: struct name -> (header, maker, singular or None, symbol or None, label)
SPELL = {
    "Amperes": ("amperes", "amperes", "ampere", "A", "A"), "Arcminutes": ("arcminutes", "arcminutes", "arcminute", "am", "'"),
    "Arcseconds": ("arcseconds", "arcseconds", "arcsecond", "as", "\""), "Bars": ("bars", "bars", "bar", "bar", "bar"),
    "Becquerel": ("becquerel", "becquerel", None, "Bq", "Bq"), "Bits": ("bits", "bits", "bit", "b", "b"),
    "Bytes": ("bytes", "bytes", "byte", "B", "B"), "Candelas": ("candelas", "candelas", "candela", "cd", "cd"),
    "Celsius": ("celsius", "celsius_qty", None, "degC_qty", "degC"), "Coulombs": ("coulombs", "coulombs", "coulomb", "C", "C"),
    "Days": ("days", "days", "day", "d", "d"), "Degrees": ("degrees", "degrees", "degree", "deg", "deg"),
    "Fahrenheit": ("fahrenheit", "fahrenheit_qty", None, "degF_qty", "degF"), "Farads": ("farads", "farads", "farad", "F", "F"),
    "Fathoms": ("fathoms", "fathoms", "fathom", "ftm", "ftm"), "Feet": ("feet", "feet", "foot", "ft", "ft"),
    "Furlongs": ("furlongs", "furlongs", "furlong", "fur", "fur"), "Grams": ("grams", "grams", "gram", "g", "g"),
    "Grays": ("grays", "grays", "gray", "Gy", "Gy"), "Henries": ("henries", "henries", "henry", "H", "H"),
    "Hertz": ("hertz", "hertz", None, "Hz", "Hz"), "Hours": ("hours", "hours", "hour", "h", "h"),
    "Inches": ("inches", "inches", "inch", "in", "in"), "Joules": ("joules", "joules", "joule", "J", "J"),
    "Katals": ("katals", "katals", "katal", "kat", "kat"), "Kelvins": ("kelvins", "kelvins", "kelvin", "K", "K"),
    "Knots": ("knots", "knots", "knot", "kn", "kn"), "Liters": ("liters", "liters", "liter", "L", "L"),
    "Lumens": ("lumens", "lumens", "lumen", "lm", "lm"), "Lux": ("lux", "lux", None, "lx", "lx"),
    "Meters": ("meters", "meters", "meter", "m", "m"), "Miles": ("miles", "miles", "mile", "mi", "mi"),
    "Minutes": ("minutes", "minutes", "minute", "min", "min"), "Moles": ("moles", "moles", "mole", "mol", "mol"),
    "NauticalMiles": ("nautical_miles", "nautical_miles", "nautical_mile", "nmi", "nmi"),
    "Newtons": ("newtons", "newtons", "newton", "N", "N"), "Ohms": ("ohms", "ohms", "ohm", "ohm", "ohm"),
    "Pascals": ("pascals", "pascals", "pascal", "Pa", "Pa"), "Percent": ("percent", "percent", None, "pct", "%"),
    "PoundsForce": ("pounds_force", "pounds_force", "pound_force", "lbf", "lbf"),
    "PoundsMass": ("pounds_mass", "pounds_mass", "pound_mass", "lb", "lb"), "Radians": ("radians", "radians", "radian", "rad", "rad"),
    "Revolutions": ("revolutions", "revolutions", "revolution", "rev", "rev"), "Seconds": ("seconds", "seconds", "second", "s", "s"),
    "Siemens": ("siemens", "siemens", "siemen", "S", "S"), "Slugs": ("slugs", "slugs", "slug", "slug", "slug"),
    "StandardGravity": ("standard_gravity", "standard_gravity", None, None, "g_0"),
    "Steradians": ("steradians", "steradians", "steradian", "sr", "sr"), "Tesla": ("tesla", "tesla", None, "T", "T"),
    "Unos": ("unos", "unos", None, None, "U"), "USGallons": ("us_gallons", "us_gallons", "us_gallon", "US_gal", "US_gal"),
    "USPints": ("us_pints", "us_pints", "us_pint", "US_pt", "US_pt"), "USQuarts": ("us_quarts", "us_quarts", "us_quart", "US_qt", "US_qt"),
    "Volts": ("volts", "volts", "volt", "V", "V"), "Watts": ("watts", "watts", "watt", "W", "W"),
    "Webers": ("webers", "webers", "weber", "Wb", "Wb"), "Yards": ("yards", "yards", "yard", "yd", "yd"),
}
assert set(SPELL) == set(TABLE) and len(TABLE) == 57

UNIT_NAMES = sorted(TABLE)
POINT_MAKERS = {"Kelvins": "kelvins_pt", "Celsius": "celsius_pt", "Fahrenheit": "fahrenheit_pt", "Meters": "meters_pt"}

# prefixes: struct name -> (applier, factor as (base, exp), label symbol)
PREFIXES = {
    "Quetta": ("quetta", (10, 30), "Q"), "Ronna": ("ronna", (10, 27), "R"), "Yotta": ("yotta", (10, 24), "Y"),
    "Zetta": ("zetta", (10, 21), "Z"), "Exa": ("exa", (10, 18), "E"), "Peta": ("peta", (10, 15), "P"),
    "Tera": ("tera", (10, 12), "T"), "Giga": ("giga", (10, 9), "G"), "Mega": ("mega", (10, 6), "M"),
    "Kilo": ("kilo", (10, 3), "k"), "Hecto": ("hecto", (10, 2), "h"), "Deka": ("deka", (10, 1), "da"),
    "Deci": ("deci", (10, -1), "d"), "Centi": ("centi", (10, -2), "c"), "Milli": ("milli", (10, -3), "m"),
    "Micro": ("micro", (10, -6), "u"), "Nano": ("nano", (10, -9), "n"), "Pico": ("pico", (10, -12), "p"),
    "Femto": ("femto", (10, -15), "f"), "Atto": ("atto", (10, -18), "a"), "Zepto": ("zepto", (10, -21), "z"),
    "Yocto": ("yocto", (10, -24), "y"), "Ronto": ("ronto", (10, -27), "r"), "Quecto": ("quecto", (10, -30), "q"),
    "Yobi": ("yobi", (2, 80), "Yi"), "Zebi": ("zebi", (2, 70), "Zi"), "Exbi": ("exbi", (2, 60), "Ei"),
    "Pebi": ("pebi", (2, 50), "Pi"), "Tebi": ("tebi", (2, 40), "Ti"), "Gibi": ("gibi", (2, 30), "Gi"),
    "Mebi": ("mebi", (2, 20), "Mi"), "Kibi": ("kibi", (2, 10), "Ki"),
}
assert len(PREFIXES) == 32


def prefix_mag(name):
    b, e = PREFIXES[name][1]
    return mpow(mag_of(b), e)


def includes(names=None):
    names = UNIT_NAMES if names is None else names
    return "\n".join('#include "au/units/%s.hh"' % SPELL[n][0] for n in sorted(set(names)))


ALL_INCLUDES = '#include "au/au.hh"\n' + includes()


# ---- canonical type spelling (Au's documented canonical forms) ------------------------------------

def _bp(base, e):
    e = F(e)
    if e == 1:
        return base
    if e.denominator == 1:
        return "au::Pow<%s, %d>" % (base, e.numerator)
    return "au::RatioPow<%s, %d, %d>" % (base, e.numerator, e.denominator)


def spell_dim(d):
    return "au::Dimension<" + ", ".join(_bp("au::base_dim::" + b, d[b]) for b in BASE_DIMS if b in d) + ">"


def spell_mag(m):
    keys = sorted(m, key=lambda k: PI_ORDER if k == "pi" else F(k))
    return "au::Magnitude<" + ", ".join(_bp("au::Pi" if k == "pi" else "au::Prime<%d>" % k, m[k]) for k in keys) + ">"


def mag_cxx(m):
    """a C++ expression producing the magnitude (factorised; never relies on mag<composite>())"""
    if not m:
        return "au::Magnitude<>{}"
    return spell_mag(m) + "{}"
