"""Value-level engine: generated TUs + harness/*.hh, exhaustive loops and rapidcheck draws,
built with sanitizers (non-recoverable), run in parallel, output parsed into per-instance stats."""
import json
import os

from . import core

SAN_FLAGS = ["-O1", "-g0", "-fsanitize=address,undefined,float-cast-overflow", "-fno-sanitize-recover=all",
             "-fno-omit-frame-pointer"]
SAN_ENV = {"ASAN_OPTIONS": "detect_leaks=0:abort_on_error=1:allocator_may_return_null=1:handle_abort=0:quarantine_size_mb=16:thread_local_quarantine_size_kb=64:malloc_context_size=0",
           "UBSAN_OPTIONS": "print_stacktrace=0:halt_on_error=1:abort_on_error=1"}
CFG = ("g++", "c++17")


def build_common(ctx, cfg=CFG, flags=SAN_FLAGS):
    """rcdriver.o + auv_main.o (no Au code inside)"""
    d = ctx.path("common", "x")
    d = os.path.dirname(d)
    objs = []
    jobs = []
    for name in ("rcdriver", "auv_main"):
        o = os.path.join(d, "%s_%s.o" % (name, cfg[0].replace("+", "p")))
        objs.append(o)
        jobs.append((name, o))

    def one(j):
        name, o = j
        cmd = [cfg[0], "-std=c++17"] + [f for f in flags if not f.startswith("-fsanitize=fuzzer")] + ["-I" + core.HARNESS, "-c", os.path.join(core.HARNESS, name + ".cc"), "-o", o]
        rc, out, err, secs, to = core.run_cmd(cmd, timeout=600)
        if rc != 0:
            raise RuntimeError("harness build failed: %s\n%s" % (" ".join(cmd), err))
        return o
    return jobs, one, objs


def parse_output(out):
    stats, fails, deaths, other = [], [], [], []
    for line in out.splitlines():
        if line.startswith("AUV "):
            try:
                stats.append(json.loads(line[4:]))
            except Exception:
                other.append(line)
        elif line.startswith("AUVFAIL "):
            try:
                fails.append(json.loads(line[8:]))
            except Exception:
                other.append(line)
        elif line.startswith("AUVDEATH "):
            try:
                deaths.append(json.loads(line[9:]))
            except Exception:
                other.append(line)
        elif line.strip():
            other.append(line)
    return stats, fails, deaths, other


class ValueRun:
    """shards: list of (name, source_text, [instance ids])"""

    def __init__(self, ctx, cfg=CFG, flags=None, rc_cases=2000, extra_args=()):
        self.ctx = ctx
        self.cfg = cfg
        self.flags = list(SAN_FLAGS if flags is None else flags)
        self.rc_cases = rc_cases
        self.extra_args = list(extra_args)
        self.stats = []
        self.fails = []      # dict(inst, input, msg, shard)
        self.deaths = []
        self.compile_errors = []
        self.total_compile_s = 0.0
        self.hang_s = 900 if ctx.quick() else 7200

    def run(self, shards, timeout=3000):
        ctx = self.ctx
        jobs, one, objs = build_common(ctx, self.cfg, self.flags)
        srcs = []
        for name, text, ids in shards:
            p = ctx.write("shards/%s.cc" % name, text)
            srcs.append((name, p, ids, text))
        # compile common objects and shards concurrently
        futs_common = [core.pool().submit(one, j) for j in jobs]

        def comp(s):
            name, p, ids, text = s
            o = p[:-3] + ".o"
            cr = core.compile_one(self.cfg, p, o, flags=self.flags + ["-c"], timeout=1800)
            return cr
        crs = core.pmap(comp, srcs)
        for f in futs_common:
            f.result()
        runnable = []
        for s, cr in zip(srcs, crs):
            self.total_compile_s += cr.secs
            if not cr.ok:
                self.compile_errors.append((s, cr))
            else:
                runnable.append(s)

        def link_run(s):
            name, p, ids, text = s
            exe = p[:-3] + ".exe"
            cmd = [self.cfg[0]] + [f for f in self.flags if f.startswith("-fsanitize") or f.startswith("-O") or f == "-pthread"] + [p[:-3] + ".o"] + objs + ["-lrapidcheck", "-o", exe]
            rc, out, err, secs, to = core.run_cmd(cmd, timeout=600)
            if rc != 0:
                return s, None, "link failed: " + err[-800:]
            env = dict(os.environ)
            env.update(SAN_ENV)
            env["RC_PARAMS"] = "seed=%d max_success=%d max_size=100 noshrink=0" % (ctx.seed * 7919 + 13, self.rc_cases)
            skip = []
            all_out = []
            for attempt in range(6):
                args = [exe] + self.extra_args
                for sk in skip:
                    args += ["--skip", sk]
                # a watchdog turns a hang into SIGABRT so that the harness prints the case being evaluated (AUVDEATH)
                rc, out, err, secs, to = core.run_cmd(["timeout", "-s", "ABRT", "-k", "30", str(self.hang_s)] + args, timeout=timeout, env=env)
                if rc in (124, 128 + 6, 137) and secs >= self.hang_s - 1:
                    err += "\nAUVHANG: no result within %d s" % self.hang_s
                all_out.append((rc, out, err, to))
                st, fl, de, other = parse_output(out)
                if rc == 0 or to:
                    break
                # died (sanitizer or crash): skip the instance that was running and everything done
                done = [x["inst"] for x in st]
                cur = de[-1]["inst"] if de else None
                if cur is None:
                    break
                skip = list(set(skip + done + [cur]))
            return s, all_out, None
        results = core.pmap(link_run, runnable)
        for s, all_out, lerr in results:
            name, p, ids, text = s
            if all_out is None:
                self.compile_errors.append((s, lerr))
                continue
            seen = set()
            for rc, out, err, to in all_out:
                st, fl, de, other = parse_output(out)
                for x in st:
                    if x["inst"] not in seen:
                        seen.add(x["inst"])
                        x["shard"] = name
                        self.stats.append(x)
                for x in fl:
                    x["shard"] = name
                    self.fails.append(x)
                if rc != 0 and not to:
                    for x in de[-1:]:
                        x["shard"] = name
                        x["stderr"] = err[-1500:]
                        self.deaths.append(x)
                    if not de:
                        self.deaths.append({"inst": "?", "what": "process died rc=%d" % rc, "shard": name, "stderr": (out[-500:] + err[-1500:])})
                if to:
                    ctx.inconclusive += 1
        return self
