"""C01: dimension mismatches are rejected at compile time; the same expression with same-dimension operands is accepted;
trait-style questions answer 'no' without a hard error (program level)."""
import copy
import json
from fractions import Fraction as F

from hypothesis import strategies as st

from .. import core, hyp, model, progs, reps, units

PRELUDE = model.ALL_INCLUDES + '''
#include <cstdint>
#include <type_traits>
#include <utility>
using namespace au;   // operators, hidden-friend math functions and pow/root are found as in user code
template <class A, class B, class = void> struct auv_has_common : std::false_type {};
template <class A, class B> struct auv_has_common<A, B, au::stdx::void_t<typename std::common_type<A, B>::type>> : std::true_type {};
'''

# (name, statement using a:Q1, b:QX (X = 2 for the probe, T for the twin), reps class, kind)
#   reps class: 'f' floating, 'i' integral, 'any'
Q_OPS = [
    ("+", "auto f(Q1 a, QX b) { return a + b; }", "any"), ("-", "auto f(Q1 a, QX b) { return a - b; }", "any"),
    ("==", "bool f(Q1 a, QX b) { return a == b; }", "any"), ("!=", "bool f(Q1 a, QX b) { return a != b; }", "any"),
    ("<", "bool f(Q1 a, QX b) { return a < b; }", "any"), ("<=", "bool f(Q1 a, QX b) { return a <= b; }", "any"),
    (">", "bool f(Q1 a, QX b) { return a > b; }", "any"), (">=", "bool f(Q1 a, QX b) { return a >= b; }", "any"),
    ("<=>", "auto f(Q1 a, QX b) { return a <=> b; }", "any"), ("%", "auto f(Q1 a, QX b) { return a % b; }", "i"),
    ("+=", "void f(Q1 a, QX b) { a += b; }", "any"), ("-=", "void f(Q1 a, QX b) { a -= b; }", "any"),
    ("implicit construction", "Q1 f(QX b) { Q1 c = b; return c; }", "any"), ("explicit construction", "Q1 f(QX b) { return Q1{b}; }", "any"),
    ("assignment", "void f(Q1 &a, QX b) { a = b; }", "any"), ("pass by value", "void g(Q1); void f(QX b) { g(b); }", "any"),
    (".as(unit)", "auto f(QX b) { return b.as(U1{}); }", "any"), (".in(unit)", "auto f(QX b) { return b.in(U1{}); }", "any"),
    (".coerce_as(unit)", "auto f(QX b) { return b.coerce_as(U1{}); }", "any"), (".coerce_in(unit)", "auto f(QX b) { return b.coerce_in(U1{}); }", "any"),
    (".as<R>(unit)", "auto f(QX b) { return b.template as<R1>(U1{}); }", "any"), (".in<R>(unit)", "auto f(QX b) { return b.template in<R1>(U1{}); }", "any"),
    (".coerce_as<R>(unit)", "auto f(QX b) { return b.template coerce_as<R1>(U1{}); }", "any"), (".coerce_in<R>(unit)", "auto f(QX b) { return b.template coerce_in<R1>(U1{}); }", "any"),
    ("min", "auto f(Q1 a, QX b) { return min(a, b); }", "any"), ("max", "auto f(Q1 a, QX b) { return max(a, b); }", "any"),
    ("clamp", "auto f(Q1 a, QX b) { return clamp(a, b, b); }", "any"), ("clamp-lo", "auto f(Q1 a, QX b) { return clamp(b, a, a); }", "any"),
    ("hypot", "auto f(Q1 a, QX b) { return hypot(a, b); }", "f"), ("fmod", "auto f(Q1 a, QX b) { return fmod(a, b); }", "f"),
    ("remainder", "auto f(Q1 a, QX b) { return remainder(a, b); }", "f"), ("arctan2", "auto f(Q1 a, QX b) { return arctan2(a, b); }", "f"),
    ("round_as", "auto f(QX b) { return round_as(U1{}, b); }", "f"), ("round_in", "auto f(QX b) { return round_in(U1{}, b); }", "f"),
    ("floor_as", "auto f(QX b) { return floor_as(U1{}, b); }", "f"), ("floor_in", "auto f(QX b) { return floor_in(U1{}, b); }", "f"),
    ("ceil_as", "auto f(QX b) { return ceil_as(U1{}, b); }", "f"), ("ceil_in", "auto f(QX b) { return ceil_in(U1{}, b); }", "f"),
    ("round_as<R>", "auto f(QX b) { return round_as<int>(U1{}, b); }", "f"),
    ("std::common_type", "using C = std::common_type_t<Q1, QX>; C f();", "any"),
]
P_OPS = [
    ("point - point", "auto f(P1 p, PX q) { return p - q; }", "any"), ("point ==", "bool f(P1 p, PX q) { return p == q; }", "any"),
    ("point !=", "bool f(P1 p, PX q) { return p != q; }", "any"), ("point <", "bool f(P1 p, PX q) { return p < q; }", "any"),
    ("point <=", "bool f(P1 p, PX q) { return p <= q; }", "any"), ("point >", "bool f(P1 p, PX q) { return p > q; }", "any"),
    ("point >=", "bool f(P1 p, PX q) { return p >= q; }", "any"), ("point <=>", "auto f(P1 p, PX q) { return p <=> q; }", "any"),
    ("point + quantity", "auto f(P1 p, QX b) { return p + b; }", "any"), ("quantity + point", "auto f(P1 p, QX b) { return b + p; }", "any"),
    ("point - quantity", "auto f(P1 p, QX b) { return p - b; }", "any"), ("point += quantity", "void f(P1 p, QX b) { p += b; }", "any"),
    ("point -= quantity", "void f(P1 p, QX b) { p -= b; }", "any"),
    ("point implicit construction", "P1 f(PX q) { P1 c = q; return c; }", "any"), ("point explicit construction", "P1 f(PX q) { return P1{q}; }", "any"),
    ("point assignment", "void f(P1 &p, PX q) { p = q; }", "any"),
    ("point .as(unit)", "auto f(PX q) { return q.as(U1{}); }", "any"), ("point .in(unit)", "auto f(PX q) { return q.in(U1{}); }", "any"),
    ("point .coerce_as(unit)", "auto f(PX q) { return q.coerce_as(U1{}); }", "any"), ("point .coerce_in(unit)", "auto f(PX q) { return q.coerce_in(U1{}); }", "any"),
    ("point .as<R>(unit)", "auto f(PX q) { return q.template as<R1>(U1{}); }", "any"), ("point .coerce_in<R>(unit)", "auto f(PX q) { return q.template coerce_in<R1>(U1{}); }", "any"),
    ("point round_as", "auto f(PX q) { return round_as(U1{}, q); }", "f"), ("point floor_in", "auto f(PX q) { return floor_in(U1{}, q); }", "f"),
]
SPECIAL = [
    ("data_in", "auto &f(Q1 &a) { return a.data_in(UX{}); }", "any", "self"),
    ("point data_in", "auto &f(P1 &p) { return p.data_in(UX{}); }", "any", "self"),
    ("inverse_as", "auto f(QX b) { return inverse_as(UI{}, b); }", "f", "inv"),
    ("inverse_in", "auto f(QX b) { return inverse_in(UI{}, b); }", "f", "inv"),
    ("inverse_as<R>", "auto f(QX b) { return inverse_as<double>(UI{}, b); }", "f", "inv"),
]
ALL_OPS = [(n, s, r, "q") for n, s, r in Q_OPS] + [(n, s, r, "p") for n, s, r in P_OPS] + SPECIAL
OP_NAMES = [o[0] for o in ALL_OPS]
POINT_ORIGIN_UNITS = ["Celsius", "Fahrenheit", "Kelvins"]
NEAR = [("Unos", "Radians"), ("Hertz", None), ("Newtons", None)]


def L(n): return {"k": "leaf", "n": n}


def TABLE_DIM_OK(n):
    return bool(model.TABLE[n].dim)


@st.composite
def case(draw):
    op = draw(st.sampled_from(OP_NAMES + ["trait", "trait"]))
    t1 = draw(units.tree(max_leaves=3, allow_scale=True))
    mk = draw(st.sampled_from(["near", "near", "random", "special", "samebase", "opaque"]))
    c = {"op": op, "t1": t1, "mk": mk, "rep": draw(st.sampled_from(["double", "float", "int32_t", "int64_t", "long double", "uint64_t", "int16_t", "uint8_t"])),
         "rep2": draw(st.sampled_from(["double", "int32_t", "int64_t", "float"])),
         "nl": draw(st.sampled_from(units.NO_TWIN_LEAVES)), "ne": draw(st.sampled_from([(1, 1), (-1, 1), (1, 2), (2, 1), (-1, 2)])),
         "sp": draw(st.integers(0, 5)), "origin": draw(st.sampled_from(POINT_ORIGIN_UNITS + [None, None])), "origin_side": draw(st.integers(0, 1))}
    if mk == "random":
        c["t2"] = draw(units.tree(max_leaves=3, allow_scale=True))
    return c


SPECIAL_PAIRS = [
    (L("Unos"), L("Radians")), (L("Hertz"), {"k": "div", "a": L("Radians"), "b": L("Seconds")}),
    ({"k": "mul", "a": L("Newtons"), "b": L("Meters")}, {"k": "div", "a": L("Newtons"), "b": L("Meters")}),
    (L("Joules"), {"k": "mul", "a": L("Newtons"), "b": L("Seconds")}), (L("Percent"), L("Degrees")), (L("Bits"), L("Unos")),
]


def prepare(c, cxx20):
    """returns dict(kind='neg'|'trait'|None, ...)"""
    op = c["op"]
    t1 = copy.deepcopy(c["t1"])
    if c["mk"] == "samebase":
        # exponent arithmetic on ONE base: X^a / X^b with a != b keeps a dimension; the mismatched partner is the unitless unit or X^(a-b) times another unit
        pairs = [((2, 1), (1, 2)), ((3, 1), (1, 3)), ((2, 3), (3, 2)), ((1, 3), (3, 1)), ((6, 1), (3, 2)), ((1, 2), (1, 3)), ((3, 2), (1, 2)), ((4, 1), (1, 2))]
        (an, ad), (bn, bd) = pairs[c["sp"] % len(pairs)]
        X = L(c["nl"]) if TABLE_DIM_OK(c["nl"]) else L("Meters")
        t1 = {"k": "div", "a": {"k": "pow", "a": copy.deepcopy(X), "n": an, "d": ad}, "b": {"k": "pow", "a": copy.deepcopy(X), "n": bn, "d": bd}}
        t2 = L("Unos") if c["origin_side"] == 0 else {"k": "pow", "a": copy.deepcopy(X), "n": 1, "d": 1}
    elif c["mk"] == "opaque":
        # an integer power of a SCALED (hence opaque to the unit algebra) unit whose dimension has a fractional exponent: (sqrt(X) * 1000)^2 has the dimension of X;
        # the mismatched partner is X^(k*n), what a numerator-only exponent product would give
        n, d, k = [(1, 2, 2), (1, 3, 3), (1, 2, 4), (3, 2, 2), (1, 2, -2), (2, 3, 3), (1, 2, 6)][c["sp"] % 7]
        X = L(c["nl"]) if TABLE_DIM_OK(c["nl"]) else L("Meters")
        t1 = {"k": "pow", "a": {"k": "scale", "a": {"k": "pow", "a": copy.deepcopy(X), "n": n, "d": d}, "num": [1000, 12, 7][c["sp"] % 3], "den": 1, "pi": [0, 1]}, "n": k, "d": 1}
        t2 = {"k": "pow", "a": copy.deepcopy(X), "n": k * n, "d": 1}
    elif c["mk"] == "special":
        t1, t2 = copy.deepcopy(SPECIAL_PAIRS[c["sp"] % len(SPECIAL_PAIRS)])
    elif c["mk"] == "near":
        t2 = {"k": "mul", "a": copy.deepcopy(t1), "b": {"k": "pow", "a": L(c["nl"]), "n": c["ne"][0], "d": c["ne"][1]}}
    else:
        t2 = copy.deepcopy(c["t2"])
    if op.startswith("point") or op == "trait":
        if c["origin"]:
            # points with a non-zero origin on one side (direction and origin matter)
            if c["origin_side"] == 0:
                t1 = L(c["origin"])
            else:
                t2 = L(c["origin"])
    units.fix_twins([t1]); units.fix_twins([t2])
    if not (units.total_exponent_ok(t1) and units.total_exponent_ok(t2)):
        return None
    u1, u2 = units.evaluate(t1), units.evaluate(t2)
    if u1.dim == u2.dim:
        # not a mismatch: force one by multiplying with an angle (kept as a near miss)
        t2 = {"k": "mul", "a": t2, "b": L("Radians")}
        u2 = units.evaluate(t2)
        if u1.dim == u2.dim:
            return None
    near = sum(1 for k in set(u1.dim) | set(u2.dim) if u1.dim.get(k, 0) != u2.dim.get(k, 0)) == 1
    spec = [o for o in ALL_OPS if o[0] == op]
    head = units.USING + "using U1 = %s;\nusing U2 = %s;\n" % (units.render_type(t1), units.render_type(t2))
    if op == "trait":
        r1, r2 = c["rep"], c["rep2"]
        b = head + "using Q1 = Quantity<U1, %s>; using Q2 = Quantity<U2, %s>; using P1 = QuantityPoint<U1, %s>; using P2 = QuantityPoint<U2, %s>;\n" % (r1, r2, r1, r2)
        for A, B in (("Q1", "Q2"), ("Q2", "Q1"), ("P1", "P2"), ("P2", "P1")):
            b += 'static_assert(!std::is_convertible<%s, %s>::value, "is_convertible must answer no");\n' % (A, B)
            b += 'static_assert(!std::is_constructible<%s, %s>::value, "is_constructible must answer no");\n' % (B, A)
            b += 'static_assert(!std::is_assignable<%s &, %s>::value, "is_assignable must answer no");\n' % (B, A)
        b += 'static_assert(!auv_has_common<Q1, Q2>::value && !auv_has_common<Q2, Q1>::value, "common_type must not exist");\n'
        b += "char auv_g(...); int auv_g(Q1);\nstatic_assert(sizeof(auv_g(std::declval<Q2>())) == sizeof(char), \"overload resolution must simply skip the mismatched overload\");\n"
        return {"kind": "trait", "body": b, "near": near, "compound": units.size(t1) + units.size(t2) > 2}
    name, stmt, rc, kind = spec[0]
    if name in ("<=>", "point <=>") and not cxx20:
        return None
    if rc == "f":
        rep = c["rep"] if c["rep"] in ("double", "float", "long double") else "double"
    elif rc == "i":
        rep = c["rep"] if c["rep"] in ("int32_t", "int64_t") else "int64_t"
    else:
        rep = c["rep"] if c["rep"] in ("double", "float", "int32_t", "int64_t", "long double") else "double"
    # twin operand: U1 scaled by 10^3 (a different unit of U1's dimension, conversion permitted for the chosen reps)
    tt = {"k": "scale", "a": copy.deepcopy(t1), "num": 1000, "den": 1, "pi": [0, 1]}
    if kind == "self":
        twin_u = "U1"
    elif kind == "inv":
        twin_u = None
    else:
        twin_u = units.render_type(tt)
    decl = "using R1 = %s;\nusing Q1 = Quantity<U1, R1>; using P1 = QuantityPoint<U1, R1>;\n" % rep
    if kind == "inv":
        # inverse_as(UI{}, b): bad UI = U1 (not the inverse dimension of b:Q2) ; twin UI = 1/U2
        bad = head + decl + "using UI = U1; using QX = Quantity<U2, R1>;\n" + stmt
        twin = head + decl + "using UI = decltype(pow<-1>(U2{})); using QX = Quantity<U2, R1>;\n" + stmt
        inv_dim_equal = units.evaluate(t1).dim == units.evaluate(t2).pow(-1).dim
        if inv_dim_equal:
            return None
    else:
        bad = head + decl + "using UX = U2; using QX = Quantity<U2, R1>; using PX = QuantityPoint<U2, R1>;\n" + stmt
        twin = head + decl + "using UX = %s; using QX = Quantity<UX, R1>; using PX = QuantityPoint<UX, R1>;\n" % twin_u + stmt
    return {"kind": "neg", "bad": bad, "twin": twin, "near": near, "op": name, "rep": rep, "compound": units.size(t1) + units.size(t2) > 2}


def grid_cases():
    out = []
    for sp in range(8):
        for name in ("+", "==", "implicit construction", ".as(unit)", "trait", "std::common_type"):
            out.append({"op": name, "t1": L("Meters"), "mk": "samebase", "rep": "double", "rep2": "double", "nl": ["Meters", "Seconds", "Hertz", "Feet"][sp % 4], "ne": (1, 1), "sp": sp, "origin": None, "origin_side": sp % 2})
    for sp in range(7):
        for name in ("+", "<", ".in(unit)", "trait", "std::common_type"):
            out.append({"op": name, "t1": L("Meters"), "mk": "opaque", "rep": "double", "rep2": "double", "nl": ["Meters", "Hertz", "Feet"][sp % 3], "ne": (1, 1), "sp": sp, "origin": None, "origin_side": 0})
    pairs = [(L("Meters"), L("Seconds")), (L("Celsius"), L("Meters")), (L("Meters"), L("Celsius")), (L("Unos"), L("Radians")), (L("Hertz"), {"k": "div", "a": L("Radians"), "b": L("Seconds")})]
    for name in OP_NAMES + ["trait"]:
        for j, (a, b) in enumerate(pairs):
            out.append({"op": name, "t1": a, "mk": "random", "t2": b, "rep": ["double", "int64_t", "float", "int32_t", "double"][j], "rep2": "int32_t", "nl": "Meters", "ne": (1, 1), "sp": 0,
                        "origin": None, "origin_side": 0})
    return out


def run(ctx):
    ctx.cov["rule"] = ("ordered unit pairs (U1,U2) with model-different dimensions drawn by Hypothesis: U1 an expression tree (<=3 leaves over library units, prefixes, powers, roots, scalings), "
                       "U2 a near miss (U1 times one unit to the power +-1, +-1/2, 2), an independent tree, or a special pair (dimensionless vs angle, Hz vs rad/s, N*m vs N/m, J vs N*s); "
                       "for each of ~70 operations (+ - == != < <= > >= <=> % += -= implicit/explicit construction, assignment, argument passing, as/in/coerce_* with and without "
                       "explicit rep, data_in, min/max/clamp, hypot, fmod, remainder, arctan2, inverse_as/in, round_/floor_/ceil_ as/in, std::common_type_t; and the QuantityPoint forms) a "
                       "NEGATIVE probe (must fail to compile) paired with a POSITIVE twin (same statement, second operand a different unit of U1's dimension, must compile in the same "
                       "configuration); trait cases are positive TUs that must compile and answer no (is_convertible / is_constructible / is_assignable both directions for Quantity "
                       "and QuantityPoint incl. units with non-zero origin on either side, common_type detection, an overload-resolution probe). A fixed grid (every operation x 5 unit "
                       "pairs) runs first; configurations rotate over the six compiler/standard combinations (<=> only under C++20). "
                       "Non-trivial: a negative probe whose twin compiled, or a trait case; distinct by (operation, rep, units). Histogram: per-operation counts, near-miss and compound fractions.")
    ctx.assumptions += ["model dimensions from the independent unit table decide which probes must fail", "twin uses a unit 10^3 times U1 so that the conversion policy permits it for the chosen reps"]
    quick = ctx.quick()
    counter = {"n": 0}

    def judge(cases):
        base = counter["n"]; counter["n"] += len(cases)
        negs, nback, poss, pback = [], [], [], []
        out = [None] * len(cases)
        for k, c in enumerate(cases):
            cfgs = core.CONFIGS if not quick else [core.CONFIGS[(ctx.seed + base + k) % 6]]
            if c["op"] in ("<=>", "point <=>"):
                cfgs = [cf for cf in core.CONFIGS if cf[1] == "c++20"] if not quick else [[cf for cf in core.CONFIGS if cf[1] == "c++20"][(base + k) % 2]]
            for cfg in cfgs:
                p = prepare(c, cfg[1] == "c++20")
                if p is None:
                    ctx.bump("degenerate_case_skipped")
                    continue
                if p["kind"] == "neg":
                    negs.append((PRELUDE, p["bad"], p["twin"], cfg)); nback.append((k, p))
                else:
                    poss.append((PRELUDE, p["body"], cfg)); pback.append((k, p))
        for (k, p), v in zip(nback, progs.judge_negative(ctx, negs, tag="c01neg")):
            c = cases[k]
            ctx.count(2)
            ctx.bump("op:" + p["op"])
            if p["near"]:
                ctx.bump("near_miss")
            if p["compound"]:
                ctx.bump("compound_units")
            ctx.bump("probes")
            if v["status"] == "ok":
                ctx.nontrivial((p["op"], p["rep"], c["t1"], c.get("t2"), c["mk"], c["nl"], c["ne"], c["sp"]))
            elif v["status"] == "accepted":
                if out[k] is None:
                    out[k] = {"what": "C01: '%s' with mismatched dimensions COMPILES [%s, rep %s]" % (p["op"], core.cfg_name(v["cfg"]), p["rep"]),
                              "replay": {"mode": "syntax", "expect": "fail", "src": v["bad_src"], "cfg": list(v["cfg"])}}
            elif v["status"] == "twin_failed":
                if progs.is_documented_ordering_limitation(v["twin"]):
                    ctx.bump("excluded_documented_limitation_hit")
                elif out[k] is None:
                    out[k] = {"what": "C01: '%s' with SAME-dimension operands (unit 10^3 apart, rep %s) is rejected [%s]: %s" % (p["op"], p["rep"], core.cfg_name(v["cfg"]), v["twin"].first_error()),
                              "replay": {"mode": "syntax", "expect": "ok", "src": v["twin_src"], "cfg": list(v["cfg"])}}
            else:
                ctx.inconclusive += 1
        for (k, p), v, it in zip(pback, progs.judge_positive(ctx, poss, group=6, tag="c01trait"), poss):
            c = cases[k]
            ctx.count(26); ctx.bump("trait_cases")
            if p["near"]:
                ctx.bump("near_miss")
            if v.ok:
                ctx.nontrivial(("trait", c["rep"], c["rep2"], c["t1"], c.get("t2"), c["mk"], c["origin"], c["origin_side"], c["nl"], c["ne"]))
            elif v.inconclusive:
                ctx.inconclusive += 1
            elif progs.is_documented_ordering_limitation(v.cr):
                ctx.bump("excluded_documented_limitation_hit")
            elif out[k] is None:
                out[k] = {"what": "C01: trait question about a dimension mismatch is a hard error or answers yes [%s]: %s" % (core.cfg_name(it[2]), v.cr.first_error()),
                          "replay": {"mode": "syntax", "expect": "ok", "src": v.src, "cfg": list(it[2])}}
        return out

    g = grid_cases()
    if quick:
        g = [c for j, c in enumerate(g) if (j + ctx.seed) % 3 == 0 or c["op"] == "trait"]
    ctx.cov["grid_cases"] = len(g)
    for c, v in zip(g, judge(g)):
        if v is not None:
            ctx.fail(v["what"], v["replay"], detail={"case": c})
    cache = hyp.run_batches(ctx, case(), judge, 6 if quick else 60, 48, label="c01")
    judged = [json.loads(k) for k, (s, v) in cache.items() if s == "judged"]
    ctx.cov["random_cases"] = len(judged)
    for c in judged[:5]:
        ctx.sample(c)
