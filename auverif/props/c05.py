"""C05: rep-changing conversions and their <T> checkers are sound, over all ordered pairs of the 11 reps."""
import json
from fractions import Fraction as F

from hypothesis import strategies as st

from .. import core, hyp, reps
from ..valrun import SAN_ENV, ValueRun

HEADER = '#include "au/au.hh"\n#include "au/units/meters.hh"\n#include "conv5.hh"\nusing namespace auv;\n'
CFG = ("g++", "c++17")
GRID = [(1, 1), (12, 1), (1, 12), (1000, 1), (1, 1000), (5, 9), (9, 5), (127, 5000), (5280, 1), (1, 3), (2, 3), (3, 2), (60, 1), (1, 60), (1024, 1),
        (1, 1024), (7, 128), (1000000, 1), (1, 1000000), (3, 1), (1, 7), (10, 1), (1, 10), (255, 1), (256, 1), (65535, 1), (65536, 1), (1, 256), (1, 65536),
        (2147483647, 1), (1, 2147483647), (4294967296, 1), (1, 4294967296), (3, 4294967296), (1000000000, 1), (1, 1000000000)]


def factor_ok(r, t, n, d):
    cm = reps.common_type(r, t)
    if reps.is_int(cm):
        return reps.conversion_compiles(cm, n, d)
    f = F(n, d)
    return f <= reps.rmax(cm) / 4 and f >= reps.fmin_denorm(cm) * 2 ** 70


@st.composite
def rand_inst(draw):
    r = draw(st.sampled_from(reps.ALL_REPS))
    t = draw(st.sampled_from(reps.ALL_REPS))
    cm = reps.common_type(r, t)
    lim = reps.rmax(reps.promoted(cm)) if reps.is_int(cm) else 10 ** 18
    kind = draw(st.integers(0, 3))
    if kind == 0:
        n, d = draw(reps.smooth_number(reps.rmax(cm) if reps.is_int(cm) else lim)), 1
    elif kind == 1:
        n, d = 1, draw(reps.smooth_number(reps.rmax(cm) if reps.is_int(cm) else lim))
    else:
        n, d = draw(reps.coprime_pair(lim))
    return {"r": r, "t": t, "n": n, "d": d}


def emit(insts):
    body = []
    for i in insts:
        dst = "decltype(au::Meters{} * %s)" % reps.mag_expr(i["d"], i["n"]) if (i["n"], i["d"]) != (1, 1) else "au::Meters"
        body.append('  { RepConv<%s, %s, au::Meters, %s> c("%s", %dull, %dull, %d, %s); c.f9_known = %s; c.run(); }'
                    % (i["r"], i["t"], dst, i["id"], i["n"], i["d"], reps.conv_category(i["n"], i["d"]), "true" if i.get("canary") else "false", "true" if F9["known"] else "false"))
    return HEADER + "int main(int argc, char **argv) {\n  g_args = parse_args(argc, argv); install_death_callback();\n" + "\n".join(body) + "\n  return 0;\n}\n"


F9 = {"known": False}
F9_TEXT = ("floating-point overflow check compares x with the rounded quotient max/f: is_conversion_lossy(meters(x), meters / mag<255>()) is false for "
           "x = -0x8.080808080808p+1013 (double) although x*255 rounds to -inf (any floating rep, factor > 1, |x| within an ulp of max/f)")
F9_REPRO = '''#include "au/au.hh"
#include "au/units/meters.hh"
#include <cmath>
int main() {
  volatile double xv = -0x8.080808080808p+1013;
  auto q = au::meters(double(xv)); auto u = au::Meters{} / au::mag<255>();
  bool lossy = au::is_conversion_lossy(q, u); double r = q.coerce_in(u);
  return (!lossy && std::isinf(r)) ? 1 : 0;
}
'''
SINGLE = '\n#ifdef AUV_SINGLE_TU\n#include "auv_main.cc"\nnamespace auv { int rc_run(const char *, size_t, PropFn, void *, uint64_t *) { return 2; } }\n#endif\n'


def run(ctx):
    ctx.cov["rule"] = ("instances (source rep R, target rep T, factor N/D) over all 121 ordered pairs of the 11 arithmetic reps: per pair the identity factor plus a "
                       "rotating selection from a grid (library ratios, powers of 2 straddling 8/16/32-bit limits, 2^31-1, 10^9) and Hypothesis-drawn smooth coprime "
                       "pairs, kept when the conversion compiles in common_type<R,T>; values: every value for 8/16-bit sources; otherwise an enumerated grid and "
                       "rapidcheck draws: for integral sources +-4 around each stage threshold (target, common and promoted-common limits mapped through the "
                       "factor), multiples of D, raw, small; for floating sources nextafter-neighbours (+-8) of 2^digits(T), max(T), lowest(T), 0, +-1 mapped "
                       "through the factor, powers of two +-1ulp, NaN (both signs), +-inf, +-0, denormals, 2^31, 2^32, 2^63, 2^64, raw bit patterns, and "
                       "integer-valued results. Oracle: exact staged pipeline (cast to common, scale, cast to target) in 128-bit integers for int->int; 4 ulp for "
                       "int->float; for floating sources the library's own scaled value c is judged exactly: not castable (NaN, inf, >=2^digits, below range) => "
                       "must be reported lossy; cleared => integral-valued, in range, result == static_cast<T>(c). UBSan float-cast-overflow non-recoverable. "
                       "Non-trivial: cleared value with x != 0 (integral sources), special or within a factor 2 of a target limit (floating sources); distinct by (R,T,N,D,bits(x)).")
    ctx.assumptions += ["O1: will_conversion_truncate<T>/is_conversion_lossy<T> are only called when will_conversion_overflow<T> is false (they scale before any overflow check); counted as o1_trunc_not_called",
                        "truncation answers are asserted in the soundness direction only", "float->int overflow answers: soundness only (the suite itself requires will_static_cast_overflow<uint8_t>(255.0001) == true)"]
    quick = ctx.quick()
    F9["known"] = ctx.is_known("F9")
    if F9["known"]:
        p = ctx.write("f9/repro.cc", F9_REPRO)
        cr = core.compile_one(CFG, p, p[:-3] + ".exe", flags=["-O0"])
        if cr.ok:
            rc, _o, _e, _s, _t = core.run_cmd([p[:-3] + ".exe"])
            if rc == 1:
                ctx.known_hit("F9", F9_TEXT)
    insts = []
    k = 0
    for r in reps.ALL_REPS:
        for t in reps.ALL_REPS:
            cand = [(n, d) for (n, d) in GRID if factor_ok(r, t, n, d)]
            chosen = [(1, 1)]
            if len(cand) > 1:
                rest = cand[1:]
                nsel = 2 if quick else 10
                for j in range(nsel):
                    chosen.append(rest[(k * 7 + j * 5 + ctx.seed) % len(rest)])
            for n, d in dict.fromkeys(chosen):
                insts.append({"r": r, "t": t, "n": n, "d": d, "src": "grid"})
            k += 1
    ctx.bump("grid_instances", len(insts))
    nr = 0
    for c in hyp.collect(ctx, rand_inst(), 120 if quick else 1500):
        if factor_ok(c["r"], c["t"], c["n"], c["d"]):
            c["src"] = "random"
            insts.append(c)
            nr += 1
    ctx.bump("random_instances", nr)
    seen, out = set(), []
    for i in insts:
        key = (i["r"], i["t"], i["n"], i["d"])
        if key in seen:
            continue
        seen.add(key)
        i["id"] = "p%d" % len(out)
        out.append(i)
    insts = out
    canaries = [{"r": "double", "t": "int32_t", "n": 1, "d": 1, "id": "canary_f", "canary": True},
                {"r": "int16_t", "t": "int32_t", "n": 3, "d": 1, "id": "canary_i", "canary": True}]
    nsh = core.NCPU
    shards = [[] for _ in range(nsh)]
    for j, i in enumerate(insts):
        shards[j % nsh].append(i)
    shards[0] = canaries + shards[0]
    vr = ValueRun(ctx, cfg=CFG, rc_cases=(4000 if quick else 60000))
    vr.run([("s%02d" % j, emit(s), [i["id"] for i in s]) for j, s in enumerate(shards) if s])
    by_id = {i["id"]: i for i in insts + canaries}
    for s, cr in vr.compile_errors:
        name, p, ids, text = s
        if isinstance(cr, str):
            raise RuntimeError(cr)
        if cr.resource_limited:
            ctx.inconclusive += len(ids)
            continue
        for iid in ids:
            src = emit([by_id[iid]]) + SINGLE
            c1 = core.compile_one(CFG, ctx.write("iso/%s.cc" % iid, src), syntax_only=True, flags=["-DAUV_SINGLE_TU"])
            if not c1.ok and not c1.resource_limited:
                if c1.harness_bug:
                    raise RuntimeError("C05 harness bug: " + c1.first_error() + "\n" + src[-600:])
                i = by_id[iid]
                ctx.fail("C05: rep-changing conversion/checkers %s -> %s by %d/%d do not compile: %s" % (i["r"], i["t"], i["n"], i["d"], c1.first_error()),
                         {"mode": "syntax", "expect": "ok", "src": src, "cfg": list(CFG), "flags": ["-DAUV_SINGLE_TU"]}, detail=str(i))
    got = {"canary_f": False, "canary_i": False}
    for f in vr.fails:
        if f["inst"] in got:
            got[f["inst"]] = True
            continue
        i = by_id[f["inst"]]
        inp = f["input"]
        ctx.fail("C05: %s %s" % (f["msg"], json.dumps(inp)),
                 {"mode": "run", "src": emit([i]) + SINGLE, "cfg": list(CFG), "flags": vr.flags + ["-DAUV_SINGLE_TU"],
                  "args": ["--one", i["id"], inp["x"]], "env": SAN_ENV, "stdout": "AUVONE ok\n"}, detail=f)
    for d in vr.deaths:
        if d["inst"] in got:
            got[d["inst"]] = True
            continue
        i = by_id.get(d["inst"])
        if i is None:
            raise RuntimeError("C05 value program died outside an instance: %s" % d)
        x = d["what"].split("x=")[1].strip()
        ctx.fail("C05: undefined behaviour / crash inside a conversion or checker at x=%s (%s -> %s by %d/%d): %s" % (x, i["r"], i["t"], i["n"], i["d"], d.get("stderr", "")[-300:].replace("\n", " | ")),
                 {"mode": "run", "src": emit([i]) + SINGLE, "cfg": list(CFG), "flags": vr.flags + ["-DAUV_SINGLE_TU"],
                  "args": ["--one", i["id"], x], "env": SAN_ENV, "stdout": "AUVONE ok\n"}, detail=d)
    if not all(got.values()) and not vr.compile_errors:
        raise RuntimeError("C05 canary not reported: %s" % got)
    pairs = set()
    for s in vr.stats:
        if s["inst"] in got:
            continue
        i = by_id[s["inst"]]
        ctx.count(s["evals"]); ctx.add_nontrivial_count(s["nt"])
        pairs.add((i["r"], i["t"]))
        for kk in ("cleared", "overflow_reported", "special", "near_limit", "o1_trunc_not_called"):
            ctx.bump(kk, s["hist"].get(kk, 0))
        if s["hist"].get("f9_excluded"):
            ctx.exclude("F9", s["hist"]["f9_excluded"])
        if s.get("exhaustive"):
            ctx.bump("exhaustive_instances")
        if len(ctx.cov["samples"]) < 8 and (len(ctx.cov["samples"]) < 2 or int(s["inst"][1:]) % 41 == 7):
            ctx.sample({"R": i["r"], "T": i["t"], "N": str(i["n"]), "D": str(i["d"]), "evaluations": s["evals"], "hist": s["hist"]})
    ctx.cov["rep_pairs_covered"] = len(pairs)
    # coverage-guided campaign over floating sources -> integral targets (raw bit patterns; soundness oracle inside the target)
    from .. import fuzzrun
    res, err = fuzzrun.campaign(ctx, "c05_fuzz", 300000 if quick else 40000000, 32)
    if res is None:
        if core.HARNESS_BUG_RE.search(err):
            raise RuntimeError("c05 fuzz target does not build: " + err[-800:])
        ctx.bump("fuzz_target_build_failed")
    else:
        fuzzrun.report(ctx, "C05", "c05_fuzz", (res, ""), "soundness of the <T> checkers violated for a floating source")
    ctx.cov["instances"] = len(insts)
