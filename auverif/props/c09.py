"""C09: QuantityPoint obeys exact affine semantics (value level) + operations without affine meaning do not compile."""
import json
from fractions import Fraction as F

from hypothesis import strategies as st

from .. import core, hyp, progs
from ..valrun import SAN_ENV, ValueRun
from . import c10

CFG = ("g++", "c++17")
HEADER = c10.PRELUDE.split("typedef __int128 auv_i128;")[0] + '#include "c09.hh"\nusing namespace auv;\n'
REP_PAIRS = [("int32_t", "int32_t"), ("int64_t", "int64_t"), ("int32_t", "int64_t"), ("int64_t", "int32_t"), ("int64_t", "double"), ("double", "double"), ("float", "double"), ("double", "float"), ("int32_t", "float"),
             ("float", "float"), ("double", "int64_t"), ("uint64_t", "uint64_t"), ("uint32_t", "uint64_t"), ("int32_t", "double")]


@st.composite
def inst(draw):
    return {"u": draw(c10.gen_unit()), "v": draw(c10.gen_unit()), "reps": list(draw(st.sampled_from(REP_PAIRS)))}


def frac_c(f):
    return "{%dLL, %dLL}" % (f.numerator, f.denominator)


def prepare(i, idx, canary=False):
    us = c10.shrink_to_fit([dict(i["u"]), dict(i["v"])])
    (mU, oU, wU), (mV, oV, wV) = [c10.model_of(u) for u in us]
    if (mU, oU) == (mV, oV) and json.dumps(us[0], sort_keys=True) != json.dumps(us[1], sort_keys=True):
        us[1] = dict(us[0]); mV, oV, wV = mU, oU, wU     # twin exclusion
    names, defs = c10.unit_defs(us)
    if json.dumps(us[0], sort_keys=True) == json.dumps(us[1], sort_keys=True):
        names[1] = names[0]
    ff = c10.rgcd([mU, mV, oU, oV] + [w for w in (wU, wV) if w])
    fineU, fineV, fineD = mU / ff, mV / ff, abs(oU - oV) / ff
    assert fineU.denominator == 1 and fineV.denominator == 1 and fineD.denominator == 1
    # comparisons / differences / shifts only where the model predicts the unit-only conversions to the common point unit are policy-permitted
    mC = c10.rgcd([mU, mV, oU - oV])
    r1, r2 = mU / mC, mV / mC
    R, T = i["reps"]
    cmp_ok = (r1 <= 1000 and r2 <= 1000 and R in ("int32_t", "int64_t", "double", "float") and T in ("int32_t", "int64_t", "double", "float") and abs(oU - oV) / mC < 2 ** 30
              and abs(oU - oV) / c10.rgcd([w for w in (wU, wV) if w] or [F(1)]) < 2 ** 30)
    # x_ (unit U) minus the origin displacement (unit = common unit of the origin units) is an ordinary mixed-unit subtraction in the
    # calculation rep, so the library's implicit-conversion policy must admit both scalings: otherwise the conversion is refused by design
    from .. import reps as _reps
    calc = _reps.common_type(R, T)
    if _reps.is_int(calc) and _reps.is_signed(T) and not _reps.is_signed(calc):
        calc = calc[1:]
    conv_ok = True
    if oU != oV:
        wd = c10.rgcd([w for w in (wU, wV) if w])
        cu = c10.rgcd([mU, wd])
        conv_ok = _reps.implicit_ok_same_rep(calc, mU / cu) and _reps.implicit_ok_same_rep(calc, wd / cu)
    spec = '{"%s", %s, %s, %s, %s, %dLL, %dLL, %dLL, %s}' % ("p%d" % idx if not canary else "canary", frac_c(mU), frac_c(oU), frac_c(mV), frac_c(oV), int(fineU), int(fineV), int(fineD), "true" if canary else "false")
    line = '  { %s static const PtSpec sp = %s; Affine<%s, %s, %s, %s, %s> a(sp); a.run(); }' % (" ".join(dict.fromkeys(defs)), spec, names[0], names[1], R, T, "true" if cmp_ok else "false")
    return line, {"mU": str(mU), "oU": str(oU), "mV": str(mV), "oV": str(oV), "R": R, "T": T, "cmp": cmp_ok, "fine": [int(fineU), int(fineV), int(fineD)], "conv_ok": conv_ok}


def emit(lines):
    return HEADER + "int main(int argc, char **argv) {\n  g_args = parse_args(argc, argv); install_death_callback();\n" + "\n".join(lines) + "\n  return 0;\n}\n"


SINGLE = '\n#ifdef AUV_SINGLE_TU\n#include "auv_main.cc"\nnamespace auv { int rc_run(const char *, size_t, PropFn, void *, uint64_t *) { return 2; } }\n#endif\n'

NEG_PRELUDE = c10.PRELUDE.split("typedef __int128 auv_i128;")[0] + '#include "au/units/meters.hh"\nusing namespace au;\n'
# (bad statement, positive twin); p, p2 are points, q is a quantity
NEG = [
    ("auto f(P p, P p2) { return p + p2; }", "auto f(P p, Q q) { return p + q; }", "point + point"),
    ("auto f(P p) { return 2 * p; }", "auto f(Q q) { return 2 * q; }", "scalar * point"),
    ("auto f(P p) { return p * 2; }", "auto f(Q q) { return q * 2; }", "point * scalar"),
    ("auto f(P p, P p2) { return p * p2; }", "auto f(Q q, Q q2) { return q * q2; }", "point * point"),
    ("auto f(P p) { return p / 2; }", "auto f(Q q) { return q / 2; }", "point / scalar"),
    ("auto f(P p) { return -p; }", "auto f(Q q) { return -q; }", "unary minus on a point"),
    ("auto f(P p, Q q) { return q - p; }", "auto f(P p, Q q) { return p - q; }", "quantity - point"),
    ("P f() { return P{ZERO}; }", "Q f() { return Q{ZERO}; }", "construction from ZERO"),
    ("P f() { P p = ZERO; return p; }", "Q f() { Q q = ZERO; return q; }", "copy-initialisation from ZERO"),
    ("void f(P &p) { p = ZERO; }", "void f(Q &q) { q = ZERO; }", "assignment from ZERO"),
    ("bool f(P p) { return p == ZERO; }", "bool f(Q q) { return q == ZERO; }", "comparison with ZERO"),
    ("void g(Q); void f(P p) { g(p); }", "void g(Q); void f(Q q) { g(q); }", "point where a quantity is required"),
    ("void g(P); void f(Q q) { g(q); }", "void g(P); void f(P p) { g(p); }", "quantity where a point is required"),
    ("auto f(Q q) { return MAKER_PT(q); }", "auto f(REP x) { return MAKER_PT(x); }", "point maker applied to a quantity"),
    ("auto f(P p) { return MAKER(p); }", "auto f(REP x) { return MAKER(x); }", "quantity maker applied to a point"),
    ("P f(Q q) { return q; }", "Q f(Q q) { return q; }", "implicit quantity -> point conversion"),
    ("Q f(P p) { return p; }", "P f(P p) { return p; }", "implicit point -> quantity conversion"),
]
NEG_UNITS = [("Celsius", "celsius_pt", "celsius_qty"), ("Kelvins", "kelvins_pt", "kelvins"), ("Fahrenheit", "fahrenheit_pt", "fahrenheit_qty"),
             ("Meters", "meters_pt", "meters"), ("Milli<Kelvins>", "milli(kelvins_pt)", "milli(kelvins)")]


def negative(ctx):
    items, meta = [], []
    reps_ = ["int", "double", "std::int64_t", "float", "std::uint8_t"]
    k = 0
    for ui, (U, mpt, mq) in enumerate(NEG_UNITS):
        for ni, (bad, twin, what) in enumerate(NEG):
            if ctx.quick() and (ui + ni + ctx.seed) % 2:
                continue
            rep = reps_[(ui + ni) % len(reps_)]
            if "unary minus" in what and rep == "std::uint8_t":
                rep = "int"      # the positive twin (-q on a sub-int rep) is itself the known finding F5
            pre = NEG_PRELUDE + "using P = QuantityPoint<%s, %s>; using Q = Quantity<%s, %s>;\n" % (U, rep, U, rep)
            sub = lambda s: s.replace("MAKER_PT", mpt).replace("MAKER", mq).replace("REP", rep)
            items.append((pre, sub(bad), sub(twin), core.CONFIGS[(ctx.seed + k) % 6]))
            meta.append((U, rep, what))
            k += 1
    for (U, rep, what), v in zip(meta, progs.judge_negative(ctx, items, tag="c09neg")):
        ctx.count(1)
        if v["status"] == "ok":
            ctx.nontrivial(("neg", U, rep, what))
        elif v["status"] == "accepted":
            ctx.fail("C09: %s compiles for QuantityPoint<%s, %s> [%s]" % (what, U, rep, core.cfg_name(v["cfg"])),
                     {"mode": "syntax", "expect": "fail", "src": v["bad_src"], "cfg": list(v["cfg"])}, detail=what)
        elif v["status"] == "twin_failed":
            raise RuntimeError("C09 negative probe twin does not compile (%s, %s, %s): %s" % (U, rep, what, v["twin"].first_error()))
        else:
            ctx.inconclusive += 1
    ctx.bump("negative_probes", len(items))


def run(ctx):
    ctx.cov["rule"] = ("instances (source point unit U, target V, source rep R, target rep T): a grid over Kelvins/Celsius/Fahrenheit/prefixed forms x 11 rep pairs plus "
                       "Hypothesis-drawn generated units (rational scale, rational origin of either sign, as in C10); values: every integer in +-2^15 around 0 and around "
                       "the other unit's origin expressed in the source unit (enumerated windows) and rapidcheck draws (windows, wide values, multiples giving integral "
                       "results); oracle: exact rational (x*mU + oU - oV)/mV in 128 bits, asserted for coerce_in<T>/as<T> whenever the result is an integer in range(T) "
                       "and the model intermediates (x and the origin displacement in the finest common unit) fit the calculation rep with two bits to spare; 6 "
                       "comparisons = sign of the exact position difference; (p - q) and p +- d checked against exact displacements; floating reps with explicit ulp (conversion: 4 ulp of the calculation rep on the intermediates + 2 ulp of a floating target on the result; narrowing double->float instances with origins beyond 2^24) "
                       "tolerances; 17 negative compile probes with positive twins (point+point, scalar*point, point*point, -point, quantity-point, ZERO, point<->quantity "
                       "mix-ups, maker misuse) over 5 units x 5 reps. Non-trivial: different origin or scale and x != 0; distinct by (instance, x[, y]).")
    ctx.assumptions += ["assertions are gated by representability of the result and of the intermediates with a two-bit margin (the statement's own proviso)",
                        "comparison/difference/shift checks only on instances where the model predicts the unit-only conversion to the common point unit is policy-permitted"]
    quick = ctx.quick()
    insts = []
    libs = sorted(c10.LIB)
    k = 0
    for a in libs:
        for b in libs:
            if a == b:
                continue
            sel = REP_PAIRS if not quick else [REP_PAIRS[(k + ctx.seed) % len(REP_PAIRS)]]
            for rp in sel:
                insts.append({"u": {"lib": a}, "v": {"lib": b}, "reps": list(rp)})
            k += 1
    # narrowing floating target: origins beyond 2^24 source units, so that the input is not a float although the (small) result is -- the subtraction must happen in the calculation rep
    for j, (ua, vb, vo) in enumerate([(1000, 1000, 500), (900, 1000, -499), (1000, 900, 433), (997, 1000, 487)]):
        insts.append({"u": {"a": 1, "b": ua, "c": 1, "d": 1, "o": 1, "origin_member": True}, "v": {"a": 1, "b": vb, "c": 60, "d": 1, "o": vo, "origin_member": True}, "reps": ["double", "float"]})
    ctx.bump("grid_instances", len(insts))
    rnd = hyp.collect(ctx, inst(), 60 if quick else 600)
    insts += rnd
    ctx.bump("random_instances", len(rnd))
    lines, metas = [], []
    kept = []
    for i in insts:
        ln, meta = prepare(i, len(lines))
        if not meta["conv_ok"]:
            ctx.bump("excluded_policy_refuses_conversion")   # the library refuses these by design (Dangerous conversion): not part of the statement
            continue
        lines.append(ln); metas.append(meta); kept.append(i)
    insts = kept
    cline, cmeta = prepare({"u": {"lib": "au::Celsius"}, "v": {"lib": "au::Kelvins"}, "reps": ["int64_t", "int64_t"]}, 0, canary=True)
    nsh = core.NCPU
    shards = [[] for _ in range(nsh)]
    for j in range(len(lines)):
        shards[j % nsh].append(j)
    shard_list = []
    for j, s in enumerate(shards):
        if s:
            ls = [lines[x] for x in s] + ([cline] if j == 0 else [])
            shard_list.append(("s%02d" % j, emit(ls), ["p%d" % x for x in s] + (["canary"] if j == 0 else [])))
    vr = ValueRun(ctx, cfg=CFG, rc_cases=(20000 if quick else 300000))
    vr.run(shard_list)
    by_id = {"p%d" % j: (lines[j], metas[j], insts[j]) for j in range(len(lines))}
    by_id["canary"] = (cline, cmeta, None)
    for s, cr in vr.compile_errors:
        name, p, ids, text = s
        if isinstance(cr, str):
            raise RuntimeError(cr)
        if cr.resource_limited:
            ctx.inconclusive += len(ids)
            continue
        for iid in ids:
            src = emit([by_id[iid][0]]) + SINGLE
            c1 = core.compile_one(CFG, ctx.write("iso/%s.cc" % iid, src), syntax_only=True, flags=["-DAUV_SINGLE_TU"])
            if not c1.ok and not c1.resource_limited:
                if progs.is_documented_ordering_limitation(c1):
                    ctx.bump("excluded_documented_limitation_hit")
                    continue
                if c1.harness_bug:
                    raise RuntimeError("C09 harness bug: " + c1.first_error() + "\n" + src[-900:])
                ctx.fail("C09: point conversion / comparison predicted to compile is rejected (%s): %s" % (json.dumps(by_id[iid][1]), c1.first_error()),
                         {"mode": "syntax", "expect": "ok", "src": src, "cfg": list(CFG), "flags": ["-DAUV_SINGLE_TU"]}, detail=by_id[iid][1])
    got_canary = False
    for f in vr.fails:
        if f["inst"] == "canary":
            got_canary = True
            continue
        ln, meta, _ = by_id[f["inst"]]
        inp = f["input"]
        ctx.fail("C09: %s %s units=%s" % (f["msg"], json.dumps(inp), json.dumps(meta)),
                 {"mode": "run", "src": emit([ln]) + SINGLE, "cfg": list(CFG), "flags": vr.flags + ["-DAUV_SINGLE_TU"],
                  "args": ["--one", f["inst"], inp["x"], inp["y"]], "env": SAN_ENV, "stdout": "AUVONE ok\n"}, detail=f)
    for d in vr.deaths:
        if d["inst"] == "canary":
            got_canary = True
            continue
        if d["inst"] not in by_id:
            raise RuntimeError("C09 value program died outside an instance: %s" % d)
        ln, meta, _ = by_id[d["inst"]]
        w = d["what"]
        x = w.split("x=")[1].split()[0]
        y = w.split("y=")[1].strip()
        ctx.fail("C09: undefined behaviour / crash in library code although all model intermediates fit with two bits to spare: %s units=%s : %s" % (w, json.dumps(meta), d.get("stderr", "")[-300:].replace("\n", " | ")),
                 {"mode": "run", "src": emit([ln]) + SINGLE, "cfg": list(CFG), "flags": vr.flags + ["-DAUV_SINGLE_TU"],
                  "args": ["--one", d["inst"], x, y], "env": SAN_ENV, "stdout": "AUVONE ok\n"}, detail=d)
    if not got_canary and not vr.compile_errors:
        raise RuntimeError("C09 canary not reported")
    for s in vr.stats:
        if s["inst"] == "canary":
            continue
        ctx.count(s["evals"]); ctx.add_nontrivial_count(s["nt"])
        for kk in ("conversions", "conversions_asserted", "comparisons", "differences"):
            ctx.bump(kk, s["hist"].get(kk, 0))
        if len(ctx.cov["samples"]) < 8 and (len(ctx.cov["samples"]) < 2 or int(s["inst"][1:]) % 19 == 3):
            ctx.sample({"instance": by_id[s["inst"]][1], "evaluations": s["evals"], "hist": s["hist"]})
    negative(ctx)
