"""C18: printed labels denote the actual unit (denotation round trip through an independent parser), sizes, digits, streaming."""
import copy
import json
import os
import re
from fractions import Fraction as F

from hypothesis import strategies as st

from .. import core, hyp, model, progs, reps, units
from ..model import PREFIXES, SPELL, U
from ..valrun import SAN_ENV
from . import c07

CFG = ("g++", "c++17")
ASAN = ["-O1", "-g0", "-fsanitize=address,undefined", "-fno-sanitize-recover=all"]
PRELUDE = model.ALL_INCLUDES + "\n#include \"au/io.hh\"\n#include <cstdio>\n#include <cstring>\n#include <limits>\n#include <sstream>\n#include <string>\nusing au::pow; using au::root;\n"

F3_TEXT = ("a label-less struct deriving from a scaled, labelled unit prints the base unit's label: struct Foo : decltype(Meters{} * mag<3>()) {} prints \"m\" and the "
           "library's own Rankines prints \"K\" (rankines(3) streams as \"3 K\"); the documentation promises [UNLABELED UNIT] (ScaledUnit<U,M> : U inherits U::label)")
F3_REPRO = PRELUDE + 'struct Foo : decltype(au::Meters{} * au::mag<3>()) {};\nint main() { return (std::strcmp(au::unit_label(Foo{}), "m") == 0 || std::strcmp(au::unit_label(au::Rankines{}), "K") == 0) ? 1 : 0; }\n'


class ParseError(Exception):
    pass


class LabelParser:
    """documented grammar: a * b, x / y, 1 / y, U^n, U^(-n), U^(n/d), [M U], [(N / D) U], EQUIV{a, b}, parentheses around products, leaf tokens"""

    def __init__(self, text, leaves):
        self.t, self.i, self.leaves = text, 0, leaves
        self.unknown_scale = False

    def peek(self, x):
        return self.t.startswith(x, self.i)

    def eat(self, x):
        if not self.peek(x):
            raise ParseError("expected %r at %d in %r" % (x, self.i, self.t))
        self.i += len(x)

    def label(self):
        # the unitless unit prints the empty string (also inside a scaling: "[(1000 / 9) ]")
        if self.i == len(self.t) or self.peek("]") or self.peek("}") or self.peek(", "):
            return U({}, {})
        if self.peek("1 / "):
            self.eat("1 / ")
            return self.group().pow(-1)
        n = self.group()
        if self.peek(" / "):
            self.eat(" / ")
            return n / self.group()
        return n

    def group(self):
        if self.peek("(") and not self.peek("(UNLABELED"):
            save = self.i
            self.eat("(")
            try:
                r = self.product()
                self.eat(")")
                return r
            except ParseError:
                self.i = save
        return self.product()

    def product(self):
        r = self.factor()
        while self.peek(" * "):
            self.eat(" * ")
            r = r * self.factor()
        return r

    def factor(self):
        a = self.atom()
        if self.peek("^"):
            self.eat("^")
            m = re.match(r"\((-?\d+)/(\d+)\)|\((-\d+)\)|(\d+)", self.t[self.i:])
            if not m:
                raise ParseError("bad exponent at %d in %r" % (self.i, self.t))
            self.i += m.end()
            e = F(int(m.group(1)), int(m.group(2))) if m.group(1) else F(int(m.group(3) or m.group(4)))
            a = a.pow(e)
        return a

    def atom(self):
        if self.peek("["):
            if self.peek("[UNLABELED UNIT]"):
                if "[UNLABELED UNIT]" in self.leaves:
                    self.eat("[UNLABELED UNIT]")
                    return self.leaves["[UNLABELED UNIT]"]
                raise ParseError("unexpected [UNLABELED UNIT] in %r" % self.t)
            self.eat("[")
            m = re.match(r"\((\d+) / (\d+)\) |(\d+) ", self.t[self.i:])
            mag = None
            if m:
                self.i += m.end()
                n, d = (int(m.group(1)), int(m.group(2))) if m.group(1) else (int(m.group(3)), 1)
                mag = model.mag_of(n, d)
            else:
                m2 = re.match(r"(\(UNLABELED SCALE FACTOR\)|\(\(UNLABELED SCALE FACTOR\) / \d+\)|\(\d+ / \(UNLABELED SCALE FACTOR\)\)|\(\(UNLABELED SCALE FACTOR\) / \(UNLABELED SCALE FACTOR\)\)) ", self.t[self.i:])
                if not m2:
                    raise ParseError("bad scale factor at %d in %r" % (self.i, self.t))
                self.i += m2.end()
                self.unknown_scale = True
            u = self.label()
            self.eat("]")
            return U(u.dim, model.mmul(u.mag, mag) if mag is not None else u.mag)
        if self.peek("EQUIV{"):
            self.eat("EQUIV{")
            outer, us, texts = self.unknown_scale, [], []
            while True:
                self.unknown_scale = False
                start = self.i
                u1 = self.label()
                us.append((u1, self.unknown_scale)); texts.append(self.t[start:self.i])
                if not self.peek(", "):
                    break
                self.eat(", ")
            self.eat("}")
            # EQUIV{...} lists the distinct, mutually equivalent spellings of a common unit: with a single spelling the label is that unit's own label
            # (unit_of_measure_test: "reduces to single unit label if all units are the same"; a repeated member is the failure mode named there)
            if len(us) < 2:
                raise ParseError("EQUIV{} with a single member in %r" % self.t)
            if len(set(texts)) != len(texts):
                raise ParseError("EQUIV{} repeats a member in %r" % self.t)
            known = [x for x, unk in us if not unk]
            # members whose scale factor is printed are compared exactly; members with an unprintable scale factor only by dimension
            if any(x.key() != known[0].key() for x in known) or any(x.dim != us[0][0].dim for x, _ in us):
                raise ParseError("EQUIV members denote different units in %r" % self.t)
            self.unknown_scale = outer or not known
            self.partial_unknown = getattr(self, "partial_unknown", False) or (bool(known) and len(known) < len(us))
            return known[0] if known else us[0][0]
        best = None
        for lab in self.leaves:
            if lab != "[UNLABELED UNIT]" and self.peek(lab) and (best is None or len(lab) > len(best)):
                best = lab
        if best is None:
            raise ParseError("no leaf token at %d in %r" % (self.i, self.t))
        self.i += len(best)
        return self.leaves[best]


def leaf_label(lf):
    if lf["k"] == "leaf":
        return SPELL[lf["n"]][4]
    return PREFIXES[lf["p"]][2] + SPELL[lf["n"]][4]


@st.composite
def case(draw):
    kind = draw(st.sampled_from(["tree", "tree", "tree", "named", "named", "bigscale", "common", "common"]))
    c = {"kind": kind}
    if kind == "common":
        # common_unit / common_point_unit of 2-3 same-dimension units (library, prefixed, anonymous rational scalings): the documented EQUIV{...} form,
        # the single-base simplification [(1 / 6) ft], or one of the inputs
        fam = draw(st.sampled_from(sorted(c07.FAMILIES)))
        els = []
        for _ in range(draw(st.integers(2, 3))):
            e = draw(c07.element(fam, False))
            if e["k"] == "named":
                e["k"] = "anon"      # a label-less struct deriving from a scaled unit is the known-finding class F3
            els.append(e)
        c.update({"fam": fam, "els": els, "point": draw(st.booleans())})
        return c
    if kind == "tree":
        c["t"] = draw(units.tree(max_leaves=6))
    elif kind == "named":
        c["defs"] = [{"id": 0, "tree": draw(units.tree(max_leaves=2)), "label": draw(st.booleans())}]
        c["t"] = draw(units.tree(max_leaves=4, named_ids=(0,)))
    else:
        c["t"] = {"k": "scale", "a": draw(units.tree(max_leaves=2, allow_scale=False)), "num": draw(st.sampled_from([2 ** 64 - 1, 2 ** 63, 10 ** 19, 18446744073709551557, 2 ** 64, 10 ** 30, 1, 7])),
                  "den": draw(st.sampled_from([1, 1, 3, 2 ** 64 - 59, 10 ** 25])), "pi": list(draw(st.sampled_from([(0, 1), (0, 1), (1, 1), (1, 2)])))}
    return c


def f3_class(d):
    """unlabeled named unit whose tree is a net scaling of a labelled unit"""
    t = d["tree"]
    if d.get("label"):
        return False
    net = {}
    while t["k"] == "scale" or (t["k"] == "pow" and t["n"] == t["d"]):
        if t["k"] == "scale":
            m = model.mag_of(t["num"], t["den"])
            if t["pi"][0]:
                m = model.mmul(m, {"pi": F(t["pi"][0], t["pi"][1])})
            net = model.mmul(net, m)
        t = t["a"]     # pow<1>(X) is X itself, so a scaling of it still derives from the labelled unit
    return bool(net) and t["k"] in ("leaf", "pre")


ORIGIN_UNIT = {"Celsius": F(1, 100), "Fahrenheit": F(1, 180)}     # celsius.hh: centi(kelvins)(27315); fahrenheit.hh: centi(rankines)(45967), in kelvins


def prepare_common(c):
    els = c["els"]
    mags = [c07.el_model(e) for e in els]
    if c["point"]:
        # the common point unit must also divide the displacement of every input's origin from the lowest origin; the library expresses each displacement in the
        # common unit of the two origin quantities' units (documented in unit_of_measure.hh), so those units' magnitudes join the gcd
        org = [(model.TABLE[e["n"]].origin, ORIGIN_UNIT.get(e["n"])) for e in els]
        lo = min(org, key=lambda x: x[0])
        for o, ou in org:
            if o != lo[0]:
                for m in (ou, lo[1]):
                    if m is not None:
                        mags.append(model.mag_of(m.numerator, m.denominator))
    g = c07.gcd_mag(mags)
    u = U(model.TABLE[els[0]["n"]].dim, g)
    leaves = {}
    for e in els:
        base = units.strip(model.TABLE[e["n"]])
        if e["k"] == "pre":
            lab, uu = PREFIXES[e["p"]][2] + SPELL[e["n"]][4], U(base.dim, model.mmul(base.mag, model.prefix_mag(e["p"])))
        else:
            lab, uu = SPELL[e["n"]][4], base
        if lab in leaves and leaves[lab].key() != uu.key():
            return None
        leaves[lab] = uu
    expr = "au::%s(%s)" % ("common_point_unit" if c["point"] else "common_unit", ", ".join(c07.el_type(e, i) + "{}" for i, e in enumerate(els)))
    # each member prints the ratio common/input (documented: "size in terms of each constituent unit"): a ratio of integers; printable iff both fit in uintmax_t
    fits = True
    for e in els:
        shown = model.mmul(model.TABLE[e["n"]].mag, model.prefix_mag(e["p"])) if e["k"] == "pre" else model.TABLE[e["n"]].mag   # an anonymous scaling folds into the printed factor
        r = model.mag_fraction(model.mmul(g, shown, -1))
        fits = fits and r.numerator < 2 ** 64 and r.denominator < 2 ** 64
    return "", expr, u, leaves, 0, (False if fits else True)


def prepare(c, f3_known):
    """-> (defs_src, expr, model U, token table, flags) or None"""
    if c["kind"] == "common":
        return prepare_common(c)
    t = copy.deepcopy(c["t"])
    defs = copy.deepcopy(c.get("defs"))
    excluded = 0
    if defs:
        units.fix_twins([defs[0]["tree"]])
        if f3_known and f3_class(defs[0]):
            defs[0]["label"] = True     # known class excluded by construction
            excluded = 1
    units.fix_twins([t], defs)
    if not units.total_exponent_ok(t, defs):
        return None
    u = units.evaluate(t, defs)
    leaves = {}
    amb = False

    def add(lab, uu):
        nonlocal amb
        if lab in leaves and leaves[lab].key() != uu.key():
            amb = True
        leaves[lab] = uu
    for lf in list(units.leaves(t)) + ([x for x in units.leaves(defs[0]["tree"])] if defs else []):
        if lf["k"] == "named":
            d = defs[0]
            du = units.strip(units.evaluate(d["tree"], defs))
            if d.get("label"):
                add("G%d" % d["id"], du)
            else:
                add("[UNLABELED UNIT]", du)
        else:
            add(leaf_label(lf), units.strip(units.evaluate(lf)))
    if amb:
        return None   # two different units of this case share one label text (e.g. milli-inch vs minute): the label cannot be judged by text
    return units.render_defs(defs), units.render_unit(t), u, leaves, excluded, None


def judge_label(text, u, leaves, unknown_ok=None):
    """unknown_ok: None = not modelled; False = every scale factor that can appear is an integer or a ratio of integers <= 2^64-1, so the unlabeled marker is wrong"""
    p = LabelParser(text, leaves)
    try:
        got = p.label()
        if p.i != len(text):
            raise ParseError("trailing text at %d in %r" % (p.i, text))
    except ParseError as e:
        return "label does not follow the documented grammar: %s" % e
    if got.dim != u.dim:
        return "label %r denotes dimension %s, the unit's is %s" % (text, dict(got.dim), dict(u.dim))
    if (p.unknown_scale or getattr(p, "partial_unknown", False)) and unknown_ok is False:
        return "label %r uses (UNLABELED SCALE FACTOR) although every scale factor is a ratio of integers that fit in 64 bits" % text
    if p.unknown_scale:
        # legitimate only if some scale factor is not an integer/rational of uint64-representable parts
        return None
    if got.mag != u.mag:
        return "label %r denotes magnitude %s, the unit's is %s" % (text, {str(k): str(v) for k, v in got.mag.items()}, {str(k): str(v) for k, v in u.mag.items()})
    return None


def ser_u(u):
    return {"dim": {k: str(v) for k, v in u.dim.items()}, "mag": {str(k): str(v) for k, v in u.mag.items()}}


def deser_u(d):
    return U({k: F(v) for k, v in d["dim"].items()}, {(k if k == "pi" else int(k)): F(v) for k, v in d["mag"].items()})


def replay_judge(params, rc, out, err):
    """stand-alone replay of a label case: re-run the single-case program and re-judge its printed label"""
    if rc != 0:
        return True, "program failed rc=%d: %s" % (rc, (err or out)[-300:])
    lines = [ln.split("\t") for ln in out.splitlines() if ln.startswith("AUVC18\t")]
    if not lines:
        return True, "no label printed"
    f = lines[0]
    sz, ln_, text = int(f[2]), int(f[3]), "\t".join(f[4:])
    if sz != ln_ + 1:
        return True, "sizeof != strlen + 1"
    why = judge_label(text, deser_u(params["u"]), {k: deser_u(v) for k, v in params["leaves"].items()}, params.get("unknown_ok"))
    return (why is not None), (why or "label %r denotes the unit" % text)


ITOA_VALUES = [0, 1, -1, 9, -9, 10, -10, 99, 100, 101, 999999999, 1000000000, 1000000001, 2 ** 31 - 1, -(2 ** 31), 2 ** 63 - 1, -(2 ** 63) + 1, 10 ** 18, -(10 ** 18), 10 ** 18 - 1]
UITOA_VALUES = [0, 1, 9, 10, 2 ** 32, 2 ** 63, 2 ** 64 - 1, 10 ** 19, 10 ** 19 - 1, 18446744073709551557]

STREAM_SRC = PRELUDE + r'''
template <class R, class U> int stream_all(const char *name, const char *expect_label) {
  int bad = 0; long n = 0;
  for (int v = int(std::numeric_limits<R>::lowest()); v <= int(std::numeric_limits<R>::max()); ++v) {
    std::ostringstream a, e, p, pe; a << au::make_quantity<U>(static_cast<R>(v)); e << v << " " << expect_label;
    p << au::make_quantity_point<U>(static_cast<R>(v)); pe << "@(" << v << " " << expect_label << ")";
    ++n; if (a.str() != e.str() || p.str() != pe.str()) { if (!bad) std::printf("AUVSTREAM FAIL %s value %d: got [%s] / [%s] expected [%s] / [%s]\n", name, v, a.str().c_str(), p.str().c_str(), e.str().c_str(), pe.str().c_str()); ++bad; }
  }
  std::printf("AUVSTREAM %s evals=%ld bad=%d\n", name, 2 * n, bad); return bad;
}
template <class R, class U> int stream_some(const char *name, const char *expect_label) {
  const R vals[] = {R(0), R(1), R(-1), R(65), R(12345), std::numeric_limits<R>::max(), std::numeric_limits<R>::lowest(), R(2.5), R(1e10), R(-0.125)};
  int bad = 0;
  for (R v : vals) { std::ostringstream a, e; a << au::make_quantity<U>(v); e << +v << " " << expect_label; if (a.str() != e.str()) { if (!bad) std::printf("AUVSTREAM FAIL %s: got [%s] expected [%s]\n", name, a.str().c_str(), e.str().c_str()); ++bad; } }
  std::printf("AUVSTREAM %s evals=10 bad=%d\n", name, bad); return bad;
}
int main() {
  int bad = 0;
  bad += stream_all<std::int8_t, au::Meters>("int8_t", "m"); bad += stream_all<std::uint8_t, au::Inches>("uint8_t", "in");
  bad += stream_all<char, au::Seconds>("char", "s"); bad += stream_all<signed char, au::Kelvins>("signed char", "K"); bad += stream_all<unsigned char, au::Hertz>("unsigned char", "Hz");
  bad += stream_all<std::int8_t, decltype(au::Meters{} / au::Seconds{})>("int8_t m/s", "m / s");
  bad += stream_some<int, au::Feet>("int", "ft"); bad += stream_some<double, au::Kilo<au::Meters>>("double", "km"); bad += stream_some<float, au::Percent>("float", "%");
  bad += stream_some<std::int64_t, au::Newtons>("int64_t", "N"); bad += stream_some<std::uint16_t, au::Bytes>("uint16_t", "B"); bad += stream_some<long double, au::Radians>("long double", "rad");
  return bad ? 1 : 0;
}
'''

EXACT = [("au::Meters{} / au::Seconds{}", "m / s"), ("au::pow<2>(au::Meters{})", "m^2"), ("au::pow<-1>(au::Seconds{})", "s^(-1)"), ("au::Meters{} * au::Seconds{}", None),
         ("au::root<2>(au::Hertz{})", "Hz^(1/2)"), ("au::Meters{} * au::mag<3>()", "[3 m]"), ("au::Feet{} * au::mag<2>() / au::mag<3>()", "[(2 / 3) ft]"), ("au::Kilo<au::Meters>{}", "km"),
         ("au::Kibi<au::Bytes>{}", "KiB"), ("au::Micro<au::Seconds>{}", "us"), ("au::Unos{} / au::Seconds{}", "U / s"), ("au::Newtons{} * au::Meters{} / au::pow<2>(au::Seconds{})", None),
         ("au::pow<-2>(au::root<3>(au::Feet{}))", "ft^(-2/3)")]


def run(ctx):
    ctx.cov["rule"] = ("unit expressions drawn by Hypothesis (C02's trees: library units, prefixes, products/quotients/powers/roots, scalings; named structs with and without a label member; "
                       "scalings by 2^63, 2^64-1, 2^64, 10^19, 10^30, huge primes, pi): the generated program (ASan+UBSan) prints unit_label(E), sizeof and strlen; Python parses the label with "
                       "the documented grammar using only the token table of this case's leaves, evaluates it to (dimension, magnitude) and requires equality with the model of E; "
                       "[UNLABELED UNIT] only for a leaf created without a label; (UNLABELED SCALE FACTOR) only checked for dimension; sizeof == strlen+1; the same program built by a "
                       "second compiler must print identical bytes (determinism); exact documented strings for simple shapes; IToA/UIToA digits for boundary and random 64-bit integers; "
                       "streaming: all 256 values of int8_t, uint8_t, char, signed char, unsigned char (value as a number, one space, label; also QuantityPoint '@(v label)') and samples "
                       "of wider reps vs '+value' formatting. Non-trivial: label with >=2 operators, a scaling or a generated named unit; distinct by canonical JSON.")
    ctx.assumptions += ["token table (SI symbols of the 57 units, prefix symbols) is written in the model, not read from the headers", "cases in which two different units share one label text are skipped (not judgeable by text)"]
    quick = ctx.quick()
    f3_known = ctx.is_known("F3")
    if f3_known:
        p = ctx.write("f3/repro.cc", F3_REPRO)
        cr = core.compile_one(CFG, p, p[:-3] + ".exe", flags=["-O0"])
        if cr.ok and core.run_cmd([p[:-3] + ".exe"])[0] == 1:
            ctx.known_hit("F3", F3_TEXT)
    counter = {"n": 0}

    def judge(cases):
        base = counter["n"]; counter["n"] += len(cases)
        preps = [prepare(c, f3_known) for c in cases]
        out = [None] * len(cases)
        group = 8
        live = [k for k, p in enumerate(preps) if p is not None]
        for k, p in enumerate(preps):
            if p is None:
                ctx.bump("skipped_ambiguous_or_degenerate")
            elif p[4]:
                ctx.exclude("F3", 1)
        batches = [live[j:j + group] for j in range(0, len(live), group)]

        def build(idxs):
            bodies, calls = [], []
            for j, k in enumerate(idxs):
                defs_src, expr, u, leaves, _, _uk = preps[k]
                bodies.append(defs_src + '\nvoid run() { const auto &l = au::unit_label(%s); std::printf("AUVC18\\t%d\\t%%zu\\t%%zu\\t%%s\\n", sizeof(l), std::strlen(l), l); }' % (expr, base + k))
                calls.append("  auv_case_%d::run();" % j)
            return progs.tu(PRELUDE, bodies, main=False) + "\n#line 1\nint main() {\n" + "\n".join(calls) + "\n  return 0;\n}\n"

        def do(bi):
            idxs = batches[bi]
            src = build(idxs)
            p = ctx.write("c18/b_%s.cc" % core.sha(src), src)
            res = {}
            cfg2 = [c for c in core.CONFIGS if c != CFG][(ctx.seed + base + bi) % 5]
            cr = core.compile_one(CFG, p, p[:-3] + ".exe", flags=ASAN, timeout=900)
            cr2 = core.compile_one(cfg2, p, p[:-3] + ".2.exe", flags=["-O0"], timeout=900)
            if cr.ok and cr2.ok:
                env = dict(os.environ); env.update(SAN_ENV)
                rc, o, e, _s, to = core.run_cmd([p[:-3] + ".exe"], env=env, timeout=120)
                rc2, o2, e2, _s2, to2 = core.run_cmd([p[:-3] + ".2.exe"], timeout=120)
                lines = {int(ln.split("\t")[1]): ln.split("\t") for ln in o.splitlines() if ln.startswith("AUVC18\t")}
                for k in idxs:
                    f = lines.get(base + k)
                    if rc != 0 or f is None:
                        res[k] = ("run", "label program crashed or sanitizer report (rc=%d): %s" % (rc, (e or o)[-300:]), build([k]))
                        continue
                    sz, ln_, text = int(f[2]), int(f[3]), "\t".join(f[4:])
                    if sz != ln_ + 1:
                        res[k] = ("size", "sizeof(unit_label) = %d but strlen+1 = %d for %r" % (sz, ln_ + 1, text), build([k])); continue
                    why = judge_label(text, preps[k][2], preps[k][3], preps[k][5])
                    if why:
                        res[k] = ("denote", why, build([k])); continue
                if o != o2 and not any(k in res for k in idxs):
                    res[idxs[0]] = ("determinism", "labels differ between %s and %s: %r vs %r" % (core.cfg_name(CFG), core.cfg_name(cfg2), o[:200], o2[:200]), src)
                return res
            for k in idxs:
                s1 = build([k])
                for cfg in (CFG, cfg2):
                    c1 = core.compile_one(cfg, ctx.write("c18/s_%s.cc" % core.sha(s1), s1), syntax_only=True, timeout=600)
                    if c1.ok:
                        continue
                    if c1.resource_limited:
                        res[k] = ("inconclusive", "", s1)
                    elif progs.is_documented_ordering_limitation(c1):
                        res[k] = ("limitation", "", s1)
                    elif c1.harness_bug:
                        raise RuntimeError("C18 harness bug: %s\n%s" % (c1.first_error(), s1[-900:]))
                    else:
                        res[k] = ("compile", "unit_label does not compile under %s: %s" % (core.cfg_name(cfg), c1.first_error()), s1)
                    break
            return res
        for bi, res in enumerate(core.pmap(do, range(len(batches)))):
            for k in batches[bi]:
                c = cases[k]
                ctx.count(3); ctx.bump("kind_" + c["kind"])
                r = res.get(k)
                js = json.dumps(c)
                nt = js.count('"mul"') + js.count('"div"') + js.count('"pow"') >= 2 or '"scale"' in js or c["kind"] in ("named", "common")
                if r is None:
                    if nt:
                        ctx.nontrivial(c)
                    continue
                kind, msg, src = r
                if kind == "inconclusive":
                    ctx.inconclusive += 1
                elif kind == "limitation":
                    ctx.bump("excluded_documented_limitation_hit")
                else:
                    # stand-alone replay: the single-case program must print exactly a label whose denotation is right: encode as expected-stdout when possible
                    rep = {"mode": "syntax", "expect": "ok", "src": src, "cfg": list(CFG)} if kind == "compile" else {
                        "mode": "pyjudge", "judge": "auverif.props.c18:replay_judge", "src": src, "cfg": list(CFG), "flags": ASAN, "env": SAN_ENV,
                        "params": {"u": ser_u(preps[k][2]), "leaves": {lab: ser_u(x) for lab, x in preps[k][3].items()}, "unknown_ok": preps[k][5]}}
                    out[k] = {"what": "C18 %s: %s  case=%s" % (kind, msg, js[:200]), "replay": rep}
        return out

    # fixed grid: exact strings, every library unit's own label and every prefix
    grid_src = PRELUDE + "int main() {\n  int bad = 0;\n"
    n_exact = 0
    for expr, exp in EXACT:
        if exp is not None:
            grid_src += '  if (std::strcmp(au::unit_label(%s), "%s") != 0) { std::printf("AUVEXACT FAIL %%s != %s\\n", au::unit_label(%s)); ++bad; }\n' % (expr, exp.replace('"', '\\"'), exp.replace('"', '\\"').replace("%", "%%"), expr)
            n_exact += 1
    for n in model.UNIT_NAMES:
        lab = SPELL[n][4].replace("\\", "\\\\").replace('"', '\\"')
        grid_src += '  if (std::strcmp(au::unit_label(au::%s{}), "%s") != 0 || sizeof(au::unit_label(au::%s{})) != %d) { std::printf("AUVEXACT FAIL label of %s is %%s\\n", au::unit_label(au::%s{})); ++bad; }\n' % (n, lab, n, len(SPELL[n][4]) + 1, n, n)
        n_exact += 1
    for pn, (fn, fac, sym) in sorted(PREFIXES.items()):
        grid_src += '  if (std::strcmp(au::unit_label(au::%s<au::Meters>{}), "%sm") != 0 || std::strcmp(au::unit_label(au::%s(au::Bytes{})), "%sB") != 0) { std::printf("AUVEXACT FAIL prefix %s: %%s\\n", au::unit_label(au::%s<au::Meters>{})); ++bad; }\n' % (pn, sym, fn, sym, pn, pn)
        n_exact += 2
    for v in ITOA_VALUES:
        lit = "(-9223372036854775807LL - 1)" if v == -(2 ** 63) else "%dLL" % v
        grid_src += '  if (std::strcmp(au::detail::IToA<%s>::value.c_str(), "%d") != 0 || au::detail::IToA<%s>::value.size() != %d) { std::printf("AUVEXACT FAIL IToA %d -> %%s\\n", au::detail::IToA<%s>::value.c_str()); ++bad; }\n' % (lit, v, lit, len(str(v)), v, lit)
        n_exact += 1
    for v in UITOA_VALUES:
        grid_src += '  if (std::strcmp(au::detail::UIToA<%dULL>::value.c_str(), "%d") != 0 || sizeof(au::detail::UIToA<%dULL>::value.char_array()) != %d) { std::printf("AUVEXACT FAIL UIToA %d\\n"); ++bad; }\n' % (v, v, v, len(str(v)) + 1, v)
        grid_src += '  if (std::strcmp(au::unit_label(au::Meters{} * au::mag<%dULL>()), "[%d m]") != 0) { std::printf("AUVEXACT FAIL scale label %d: %%s\\n", au::unit_label(au::Meters{} * au::mag<%dULL>())); ++bad; }\n' % (v, v, v, v) if v > 1 and v not in (10 ** 19 - 1,) else ""
        n_exact += 2
    grid_src += '  std::printf("AUVEXACT done bad=%d\\n", bad);\n  return bad ? 1 : 0;\n}\n'
    jobs = [("exact", grid_src), ("stream", STREAM_SRC)]

    def run_fixed(j):
        name, src = j
        p = ctx.write("fixed/%s.cc" % name, src)
        cr = core.compile_one(CFG, p, p[:-3] + ".exe", flags=ASAN, timeout=900)
        if not cr.ok:
            return name, src, None, cr
        env = dict(os.environ); env.update(SAN_ENV)
        return name, src, core.run_cmd([p[:-3] + ".exe"], env=env, timeout=300), cr
    for name, src, rr, cr in core.pmap(run_fixed, jobs):
        if rr is None:
            if cr.resource_limited:
                ctx.inconclusive += 1; continue
            if cr.harness_bug:
                raise RuntimeError("C18 fixed program '%s' harness bug: %s" % (name, cr.first_error()))
            ctx.fail("C18: %s program does not compile: %s" % (name, cr.first_error()), {"mode": "syntax", "expect": "ok", "src": src, "cfg": list(CFG)})
            continue
        rc, o, e, _s, to = rr
        if name == "exact":
            ctx.count(n_exact)
        for ln in o.splitlines():
            if ln.startswith("AUVSTREAM ") and "evals=" in ln:
                ctx.count(int(ln.split("evals=")[1].split()[0]))
                ctx.add_nontrivial_count(int(ln.split("evals=")[1].split()[0]) // 2 if "char" in ln or "int8" in ln else 0)
        if rc != 0:
            bad = [ln for ln in o.splitlines() if "FAIL" in ln][:2]
            ctx.fail("C18 %s: %s" % (name, "; ".join(bad) if bad else (e or o)[-300:]), {"mode": "run", "src": src, "cfg": list(CFG), "flags": ASAN, "env": SAN_ENV})
    ctx.sample({"fixed": "exact strings: %d checks; streaming: 6 x 256 8-bit values (Quantity and QuantityPoint) + samples of 6 wider reps" % n_exact})
    cache = hyp.run_batches(ctx, case(), judge, 8 if quick else 80, 48, label="c18")
    judged = [json.loads(k) for k, (s, v) in cache.items() if s == "judged"]
    ctx.cov["random_cases"] = len(judged)
    for c in judged[:4]:
        ctx.sample(c)
