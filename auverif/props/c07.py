"""C07: the common unit is the gcd unit, symmetric in its inputs (program level)."""
import itertools
import json
from fractions import Fraction as F

from hypothesis import strategies as st

from .. import core, hyp, model, progs, reps
from ..model import TABLE

FAMILIES = {
    "length": ["Meters", "Inches", "Feet", "Yards", "Miles", "Fathoms", "Furlongs", "NauticalMiles"],
    "time": ["Seconds", "Minutes", "Hours", "Days"],
    "angle": ["Degrees", "Arcminutes", "Arcseconds", "Revolutions"],
    "volume": ["Liters", "USGallons", "USQuarts", "USPints"],
    "mass": ["Grams", "PoundsMass"],
    "pressure": ["Pascals", "Bars"],
    "info": ["Bits", "Bytes"],
    "ratio": ["Unos", "Percent"],
    "temperature": ["Kelvins", "Celsius", "Fahrenheit"],
}
PREF = ["Kilo", "Milli", "Centi", "Micro", "Mega", "Kibi", "Nano", "Deci"]
REPS = ["int8_t", "uint16_t", "int32_t", "int64_t", "uint64_t", "float", "double"]


@st.composite
def element(draw, fam, allow_pi):
    kind = draw(st.sampled_from(["lib", "lib", "pre", "anon", "anon", "named"]))
    n = draw(st.sampled_from(FAMILIES[fam]))
    if kind == "lib":
        return {"k": "lib", "n": n}
    if kind == "pre":
        return {"k": "pre", "p": draw(st.sampled_from(PREF)), "n": n}
    num = draw(reps.smooth_number(2 ** 40))
    den = draw(reps.smooth_number(2 ** 40))
    pi = [0, 1]
    if allow_pi and draw(st.integers(0, 1)):
        pi = list(draw(st.sampled_from([(1, 1), (-1, 1), (2, 1), (1, 2)])))
    return {"k": kind, "n": n, "num": num, "den": den, "pi": pi}


@st.composite
def case(draw):
    fam = draw(st.sampled_from(sorted(FAMILIES)))
    irr = draw(st.integers(0, 9)) == 0
    n = draw(st.integers(2, 4))
    els = [draw(element(fam, irr)) for _ in range(n)]
    mode = draw(st.sampled_from(["plain", "plain", "coincide", "dup", "chain"]))
    if mode == "chain":
        # three mutually non-redundant scalings of ONE base whose magnitudes share a prefix P: P, P*q^a/r and P*t/p^b with primes q < p < r, t.  Ordering them needs the
        # "shorter pack first" rule AND the "smaller exponent first" rule together (an intransitive mix of the two gives a different sort for each input order)
        nm = draw(st.sampled_from(FAMILIES[fam]))
        kind = draw(st.sampled_from(["named", "anon", "anon"]))
        P = draw(st.sampled_from([1, 1, 2, 3, 4]))
        q, p_ = draw(st.sampled_from([(2, 3), (2, 5), (3, 5), (5, 7), (3, 7)]))
        if P % q == 0 or P % p_ == 0:
            P = 1
        r, t = draw(st.sampled_from([(11, 13), (13, 11), (7919, 8191), (17, 65537)]))
        a, b_ = draw(st.sampled_from([(1, 1), (2, 1), (1, 2), (3, 3)]))
        first = {"k": "lib", "n": nm} if P == 1 else {"k": kind, "n": nm, "num": P, "den": 1, "pi": [0, 1]}
        els = [first, {"k": kind, "n": nm, "num": P * q ** a, "den": r, "pi": [0, 1]}, {"k": kind, "n": nm, "num": P * t, "den": p_ ** b_, "pi": [0, 1]}]
        els = list(draw(st.permutations(els)))
        if draw(st.booleans()):
            els.append(draw(element(fam, False)))
        return {"fam": fam, "els": els, "mode": "plain", "r1": draw(st.sampled_from(REPS)), "r2": draw(st.sampled_from(REPS)), "pick": draw(st.integers(0, 3))}
    if mode == "coincide" and not irr and len(FAMILIES[fam]) >= 2:
        # two anonymous scalings of DIFFERENT library units that coincide in size (distinct types, quantity-equivalent), fine enough to be the common unit
        a, b = draw(st.permutations(FAMILIES[fam]))[:2]
        ra = model.mag_fraction(model.mmul(TABLE[a].mag, TABLE[b].mag, -1)) if model.mag_is_rational(model.mmul(TABLE[a].mag, TABLE[b].mag, -1)) else None
        if ra is not None:
            k = draw(st.sampled_from([12, 36, 1000, 7, 60]))
            nb = ra * F(1, k)
            els[0] = {"k": "anon", "n": a, "num": 1, "den": k, "pi": [0, 1]}
            if nb.numerator < 2 ** 62 and nb.denominator < 2 ** 62:
                els[1] = {"k": "anon", "n": b, "num": nb.numerator, "den": nb.denominator, "pi": [0, 1]}
    return {"fam": fam, "els": els, "mode": mode, "r1": draw(st.sampled_from(REPS)), "r2": draw(st.sampled_from(REPS)), "pick": draw(st.integers(0, 3))}


def el_model(e):
    u = TABLE[e["n"]]
    m = dict(u.mag)
    if e["k"] == "pre":
        m = model.mmul(m, model.prefix_mag(e["p"]))
    elif e["k"] in ("anon", "named"):
        m = model.mmul(m, model.mag_of(e["num"], e["den"]))
        if e["pi"][0]:
            m = model.mmul(m, {"pi": F(e["pi"][0], e["pi"][1])})
    return model._clean(m)


def el_type(e, idx):
    if e["k"] == "lib":
        return "au::%s" % e["n"]
    if e["k"] == "pre":
        return "au::%s<au::%s>" % (e["p"], e["n"])
    from ..units import mag_cxx
    expr = "decltype(au::%s{} * %s)" % (e["n"], mag_cxx(e["num"], e["den"], tuple(e["pi"])))
    if e["k"] == "named":
        return "N%d" % idx
    return expr


def el_defs(els):
    from ..units import mag_cxx
    out = []
    for i, e in enumerate(els):
        if e["k"] == "named":
            out.append("struct N%d : decltype(au::%s{} * %s) {};" % (i, e["n"], mag_cxx(e["num"], e["den"], tuple(e["pi"]))))
    return "\n".join(out)


def gcd_mag(mags):
    keys = set()
    for m in mags:
        keys |= set(m)
    g = {}
    for k in keys:
        g[k] = min(m.get(k, F(0)) for m in mags)
    return model._clean(g)


def prepare(c):
    els = [dict(e) for e in c["els"]]
    # mode equal_to_g: replace one element by an anonymous unit that IS the gcd of the others' (so an input already is the common unit)
    mags = [el_model(e) for e in els]
    if c["mode"] == "dup":
        els.append(dict(els[c["pick"] % len(els)]))
        mags.append(el_model(els[-1]))
    # twin exclusion: two distinct NAMED types (lib / pre / named struct) with identical magnitude -> replace the later by the earlier
    ntw = 0
    seen = {}
    for i, e in enumerate(els):
        if e["k"] in ("lib", "pre", "named"):
            key = (model.mag_key(mags[i]), str(TABLE[e["n"]].origin))   # documented limitation: identical dimension, magnitude AND origin
            sp = json.dumps(e, sort_keys=True)
            if key in seen and seen[key][0] != sp:
                els[i] = json.loads(seen[key][0]); mags[i] = el_model(els[i]); ntw += 1
            else:
                seen.setdefault(key, (sp,))
    # named structs get their list index as identity: identical (n,num,den) named twice would be two distinct twin types -> make them anon
    for i, e in enumerate(els):
        if e["k"] == "named":
            for j in range(i):
                if els[j]["k"] == "named" and model.mag_key(mags[j]) == model.mag_key(mags[i]):
                    e["k"] = "anon"; ntw += 1
    rational = all(model.mag_is_rational(model.mmul(m, mags[0], -1)) for m in mags)
    types = [el_type(e, i) for i, e in enumerate(els)]
    b = [el_defs(els)]
    lst = ", ".join(types)
    b.append("using C = au::CommonUnitT<%s>;" % lst)
    n = len(types)
    perms = list(itertools.permutations(range(n)))
    for p in perms[1:]:
        b.append('static_assert(std::is_same<au::CommonUnitT<%s>, C>::value, "permutation invariance");' % ", ".join(types[i] for i in p))
    b.append('static_assert(std::is_same<au::CommonUnitT<%s, %s>, C>::value, "repetition invariance");' % (lst, types[c["pick"] % n]))
    b.append('static_assert(au::HasSameDimension<C, %s>::value, "dimension");' % types[0])
    if n >= 3:
        b.append('static_assert(au::are_units_quantity_equivalent(au::CommonUnitT<%s, au::CommonUnitT<%s>>{}, C{}), "nesting");' % (types[0], ", ".join(types[1:])))
    checks = 2 + len(perms) - 1 + (1 if n >= 3 else 0)
    if rational:
        g = gcd_mag(mags)
        b.append('static_assert(std::is_same<au::detail::MagT<C>, %s>::value, "common unit magnitude is the gcd");' % model.spell_mag(g))
        hits = []
        for i, m in enumerate(mags):
            r = model.mmul(m, g, -1)
            assert model.mag_is_integer(r) or not r, (m, g)
            b.append('static_assert(au::is_integer(au::unit_ratio(%s{}, C{})), "input/common ratio is an integer");' % types[i])
            v = model.mag_fraction(r)
            if v < 2 ** 64:
                b.append('static_assert(au::get_value<std::uint64_t>(au::unit_ratio(%s{}, C{})) == %dull, "ratio value");' % (types[i], int(v)))
            checks += 2
            if not r:
                hits.append(types[i])
        if hits:
            b.append('static_assert(%s, "an input that already is the common unit must be chosen");' % " || ".join("std::is_same<C, %s>::value" % h for h in dict.fromkeys(hits)))
            checks += 1
        c["_hit"] = bool(hits)
    # std::common_type of quantities
    if n >= 2:
        q1 = "au::Quantity<%s, %s>" % (types[0], c["r1"])
        q2 = "au::Quantity<%s, %s>" % (types[1], c["r2"])
        b.append('static_assert(std::is_same<std::common_type_t<%s, %s>, au::Quantity<au::CommonUnitT<%s, %s>, std::common_type_t<%s, %s>>>::value, "common_type of quantities");'
                 % (q1, q2, types[0], types[1], c["r1"], c["r2"]))
        b.append('static_assert(std::is_same<std::common_type_t<%s, %s>, std::common_type_t<%s, %s>>::value, "common_type symmetric");' % (q1, q2, q2, q1))
        checks += 2
    distinct_mags = len(set(model.mag_key(m) for m in mags))
    nt = distinct_mags >= 2
    return "\n".join(b), checks, nt, ntw, rational


PRELUDE = model.ALL_INCLUDES + "\n#include <cstdint>\n#include <type_traits>\n"


def run(ctx):
    ctx.cov["rule"] = ("lists of 2-4 same-dimension units drawn by Hypothesis from a dimension family (library units, SI/binary-prefixed units, anonymous scalings by smooth "
                       "rationals with numerator/denominator <= 2^40, named structs deriving from such scalings, pi-power scalings for the irrational branch, repeated "
                       "elements); per list: CommonUnitT identical under every permutation and under repetition, nesting quantity-equivalent, dimension preserved; for "
                       "rational lists MagT<Common> is_same as the model gcd (per prime: minimum exponent), every input/common ratio is_integer with the model's value "
                       "(hence jointly coprime), and when an input already has the gcd magnitude the result is_same as one of those inputs; "
                       "std::common_type_t of two Quantity types has unit CommonUnitT, rep common_type_t and is symmetric. Lists with two distinct named units of equal "
                       "magnitude are rewritten (documented limitation). A fixed grid (all pairs and triples inside each library family) runs first. "
                       "Non-trivial: >= 2 distinct magnitudes; distinct by canonical JSON.")
    ctx.assumptions += ["model gcd over prime exponents of the independently tabulated unit magnitudes"]
    quick = ctx.quick()
    counter = {"n": 0}

    def judge(cases):
        items, back = [], []
        for k, c in enumerate(cases):
            body, checks, nt, ntw, rational = prepare(dict(c))
            cfgs = core.CONFIGS if not quick else [core.CONFIGS[(ctx.seed + counter["n"] + k) % 6]]
            for cfg in cfgs:
                items.append((PRELUDE, body, cfg))
                back.append((k, checks, nt, ntw, rational))
        counter["n"] += len(cases)
        vs = progs.judge_positive(ctx, items, group=8, tag="c07")
        out = [None] * len(cases)
        for (k, checks, nt, ntw, rational), v, it in zip(back, vs, items):
            c = cases[k]
            ctx.count(checks)
            ctx.bump("len_%d" % len(c["els"]))
            ctx.bump("rational_lists" if rational else "irrational_lists")
            if ntw:
                ctx.bump("excluded_documented_limitation_twins_rewritten", ntw)
            if v.ok:
                if nt:
                    ctx.nontrivial(c)
                continue
            if v.inconclusive:
                ctx.inconclusive += 1
                continue
            if progs.is_documented_ordering_limitation(v.cr):
                ctx.bump("excluded_documented_limitation_hit")
                continue
            if out[k] is None:
                out[k] = {"what": "C07 [%s]: %s" % (core.cfg_name(it[2]), v.cr.first_error()), "replay": {"mode": "syntax", "expect": "ok", "src": v.src, "cfg": list(it[2])}}
        return out

    grid = []
    for fam, names in sorted(FAMILIES.items()):
        for a, b in itertools.combinations(names, 2):
            grid.append({"fam": fam, "els": [{"k": "lib", "n": a}, {"k": "lib", "n": b}], "mode": "plain", "r1": "int32_t", "r2": "double", "pick": 0})
            grid.append({"fam": fam, "els": [{"k": "lib", "n": a}, {"k": "anon", "n": b, "num": 1, "den": 1, "pi": [0, 1]}, {"k": "pre", "p": "Milli", "n": b}], "mode": "plain", "r1": "int64_t", "r2": "int8_t", "pick": 1})
        # quantity-equivalent but distinct: named library unit vs anonymous scaling that equals it (must pick the same type in either order)
        for a in names[1:]:
            ratio = model.mag_fraction(model.mmul(TABLE[a].mag, TABLE[names[0]].mag, -1))
            grid.append({"fam": fam, "els": [{"k": "anon", "n": names[0], "num": ratio.numerator, "den": ratio.denominator, "pi": [0, 1]}, {"k": "lib", "n": a}], "mode": "plain", "r1": "int32_t", "r2": "int32_t", "pick": 0})
    for a, b, k, nb in [("Feet", "Yards", 12, F(1, 36)), ("Inches", "Feet", 5, F(1, 60)), ("Seconds", "Minutes", 7, F(1, 420)), ("Bits", "Bytes", 3, F(1, 24))]:
        grid.append({"fam": "length", "els": [{"k": "anon", "n": a, "num": 1, "den": k, "pi": [0, 1]}, {"k": "anon", "n": b, "num": nb.numerator, "den": nb.denominator, "pi": [0, 1]}, {"k": "lib", "n": a}], "mode": "plain", "r1": "int32_t", "r2": "int64_t", "pick": 0})
        grid.append({"fam": "length", "els": [{"k": "anon", "n": b, "num": nb.numerator, "den": nb.denominator, "pi": [0, 1]}, {"k": "anon", "n": a, "num": 1, "den": k, "pi": [0, 1]}], "mode": "plain", "r1": "double", "r2": "int8_t", "pick": 1})
    if quick:
        grid = [g for j, g in enumerate(grid) if (j + ctx.seed) % 2 == 0 or g["els"][0]["k"] == "anon" or g["fam"] == "temperature"]
    ctx.cov["grid_cases"] = len(grid)
    for c, v in zip(grid, judge(grid)):
        if v is not None:
            ctx.fail(v["what"], v["replay"], detail={"case": c})
    cache = hyp.run_batches(ctx, case(), judge, 10 if quick else 80, 40, label="c07")
    judged = [json.loads(k) for k, (s, v) in cache.items() if s == "judged"]
    ctx.cov["random_cases"] = len(judged)
    for c in judged[:4]:
        ctx.sample(c)
