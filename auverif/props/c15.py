"""C15: unit-aware math functions (value level) + compile-time refusal of dangerous integral inversions."""
import json
from fractions import Fraction as F

import mpmath
from hypothesis import strategies as st

from .. import core, hyp, model, progs, reps
from ..model import TABLE
from ..valrun import SAN_ENV, ValueRun

mpmath.mp.dps = 40
CFG = ("g++", "c++17")
HEADER = model.ALL_INCLUDES + '\n#include "c15.hh"\nusing namespace auv;\nusing au::pow; using au::root;\n'
SINGLE = '\n#ifdef AUV_SINGLE_TU\n#include "auv_main.cc"\nnamespace auv { int rc_run(const char *, size_t, PropFn, void *, uint64_t *) { return 2; } }\n#endif\n'
NEG_PRELUDE = model.ALL_INCLUDES + "\nusing namespace au;\n"

LEN = ["Meters", "Feet", "Inches", "Yards", "Miles", "Kilo<Meters>", "Milli<Meters>", "Centi<Meters>", "NauticalMiles"]
ANG = ["Radians", "Degrees", "Revolutions", "Arcminutes", "Arcseconds", "Milli<Radians>"]
TIM = ["Seconds", "Minutes", "Hours", "Milli<Seconds>", "Days", "Micro<Seconds>"]
TIME_LIKE = ["Seconds", "Milli<Seconds>", "Micro<Seconds>", "Nano<Seconds>", "Minutes", "Hours", "Kilo<Seconds>"]
FREQ_LIKE = ["Hertz", "Kilo<Hertz>", "Mega<Hertz>", "Giga<Hertz>", "Milli<Hertz>", "decltype(pow<-1>(Minutes{}))", "decltype(pow<-1>(Hours{}))", "Becquerel"]


def umodel(s):
    s = s.replace("au::", "")
    if s.startswith("decltype(pow<-1>("):
        inner = s[len("decltype(pow<-1>("):-4]
        return model.mpow(umodel(inner), -1)
    if "<" in s:
        p, n = s[:-1].split("<")
        return model.mmul(TABLE[n].mag, model.prefix_mag(p))
    return dict(TABLE[s].mag)


def cxx(s):
    if s.startswith("decltype(Seconds{} / mag<"):
        return s.replace("Seconds", "au::Seconds").replace("mag<", "au::mag<")
    if s.startswith("decltype"):
        return s.replace("pow<-1>(", "pow<-1>(au::")
    if "<" in s:
        p, n = s[:-1].split("<")
        return "au::%s<au::%s>" % (p, n)
    return "au::" + s


def ratio(a, b):
    return model.mmul(umodel(a), umodel(b), -1)


@st.composite
def round_inst(draw):
    fam = draw(st.sampled_from([LEN, ANG, TIM]))
    return {"kind": "round", "src": draw(st.sampled_from(fam)), "dst": draw(st.sampled_from(fam)), "rep": draw(st.sampled_from(["int16_t", "int32_t", "int64_t", "uint32_t", "float", "double"]))}


def lines_for(insts):
    out = []
    for i in insts:
        k = i["kind"]
        if k == "round":
            m = ratio(i["src"], i["dst"])
            if model.mag_is_rational(m):
                fr = model.mag_fraction(m)
                if fr.numerator >= 2 ** 63 or fr.denominator >= 2 ** 63:
                    continue
                f, n, d = "%d.0L / %d.0L" % (fr.numerator, fr.denominator), fr.numerator, fr.denominator
            else:
                f, n, d = mpmath.nstr(model.mag_float(m), 30) + "L", 0, 0
            out.append((i, '  { Round15<%s, %s, %s> r("%s", %s, %dull, %dull, %s); r.run(); }' % (i["rep"], cxx(i["src"]), cxx(i["dst"]), i["id"], f, n, d, "true" if i.get("canary") else "false")))
        elif k == "inv":
            out.append((i, '  { Inv15<%s, %s, %s> r("%s", %dull); r.run(); }' % (i["rep"], cxx(i["u"]), cxx(i["t"]), i["id"], i["K"])))
        elif k == "trig":
            f = mpmath.nstr(model.mag_float(umodel(i["a"])), 30) + "L"
            out.append((i, '  { Trig15<%s, %s> r("%s", %s); r.run(); }' % (i["rep"], cxx(i["a"]), i["id"], f)))
        else:
            out.append((i, '  { Bin15<%s, %s, %s, %s> r("%s", %dull, %dull); r.run(); }' % (i["r1"], i["r2"], cxx(i["u1"]), cxx(i["u2"]), i["id"], i["k1"], i["k2"])))
    return out


def emit(lines):
    return HEADER + "int main(int argc, char **argv) {\n  g_args = parse_args(argc, argv); install_death_callback();\n" + "\n".join(lines) + "\n  return 0;\n}\n"


def run(ctx):
    ctx.cov["rule"] = ("(rounding) (source unit, target unit, rep) over length/angle/time families with integer, reciprocal, rational and irrational (deg/rad/rev/arcmin) ratios, grid + "
                       "Hypothesis-drawn: floor_/ceil_/round_{in,as} and explicit-rep forms vs the exact value e = x*ratio in long double: r integral, floor<=e+d, e-d<floor+1, "
                       "ceil analogous, |round-e|<=1/2+d with d = 4 ulp of the rounding rep; explicit OutputRep forms (int64/int32; float/double/long double below 2^24) equal the implicit form; integral values exhaustively in +-2^16, doubles as half-integers/integers +-k ulp in the "
                       "TARGET unit plus random; (inversion) every (time-like, frequency-like) prefix pair with integer K>=10^6 representable in the rep: inverse_in/as == trunc(K/x), "
                       "n in 1..1000 exhaustively incl. the round trip inverse(inverse(n)) == n, random larger n, 4 ulp for floating reps; integral inversions with K<10^6 must not "
                       "compile (negative probes with floating twins); (trig) sin/cos/tan of deg/rad/rev/arcmin/mrad quantities vs long double std:: of the exact radians with "
                       "tolerance 4ulp(arg)*max(1,|f'|)+2ulp, arc* return radians bit-equal to std::; (binary) hypot/fmod/remainder/min/max/clamp/abs/isnan/copysign vs std:: on "
                       "exactly converted common-unit values incl. NaN, +-inf, +-0. Non-trivial: value within the band or on a rounding boundary, irrational ratio, K/n non-integer; "
                       "distinct by (instance, operand bits).")
    ctx.assumptions += ["min/max/clamp compared by value (==) and not asserted on NaN operands: the library documents its own choice among equivalent/unordered elements",
                        "fmod/remainder asserted bit-equal only where the conversion to the common unit is exact (integral operands or factor 1)"]
    quick = ctx.quick()
    insts = []
    # rounding grid
    for fam in (LEN, ANG, TIM):
        for a in fam:
            for b in fam:
                if a == b:
                    continue
                for rep in (["int32_t", "double"] if not quick else [["int32_t", "double", "float", "int16_t", "int64_t"][(len(insts) + ctx.seed) % 5]]):
                    if quick and (len(insts) + ctx.seed) % 3:
                        insts.append(None); continue
                    insts.append({"kind": "round", "src": a, "dst": b, "rep": rep})
    insts = [i for i in insts if i]
    insts += hyp.collect(ctx, round_inst(), 20 if quick else 200)
    # inversion
    neg = []
    for u in TIME_LIKE:
        for t in FREQ_LIKE:
            Km = model.mpow(model.mmul(umodel(t), umodel(u)), -1)
            Kf = model.mag_fraction(Km)
            for rep in ("int32_t", "int64_t", "double", "float", "uint32_t"):
                if reps.is_int(rep):
                    if Kf.denominator == 1 and Kf >= 10 ** 6 and Kf <= reps.rmax(rep):
                        insts.append({"kind": "inv", "u": u, "t": t, "rep": rep, "K": int(Kf)})
                    elif Kf < 10 ** 6:
                        neg.append((u, t, rep, Kf))
                elif Kf.denominator == 1 and 1 <= Kf < 2 ** 63:
                    insts.append({"kind": "inv", "u": u, "t": t, "rep": rep, "K": int(Kf)})
    # threshold straddlers: K = 999999 / 10^6 / 10^6+1 / 10^5 via generated time units 1/K s against Hertz
    for Kb in (99999, 100000, 999999, 1000000, 1000001, 2147483647):
        for rep in ("int32_t", "int64_t", "double"):
            ent = {"kind": "inv", "u": "decltype(Seconds{} / mag<%d>())" % Kb, "t": "Hertz", "rep": rep, "K": Kb}
            if reps.is_int(rep) and Kb < 10 ** 6:
                neg.append((ent["u"], "Hertz", rep, F(Kb)))
            else:
                insts.append(ent)
    # trig
    for a in ANG:
        for rep in ("double", "float", "int32_t", "int16_t", "long double"):
            insts.append({"kind": "trig", "a": a, "rep": rep})
    # binary wrappers
    for (u1, u2, k1, k2) in [("Feet", "Inches", 12, 1), ("Meters", "Centi<Meters>", 100, 1), ("Seconds", "Milli<Seconds>", 1000, 1), ("Yards", "Feet", 3, 1), ("Meters", "Meters", 1, 1), ("Inches", "Feet", 1, 12), ("Degrees", "Arcminutes", 60, 1)]:
        for (r1, r2) in [("int32_t", "int32_t"), ("int64_t", "int32_t"), ("double", "double"), ("float", "double"), ("double", "int32_t"), ("float", "float")]:
            insts.append({"kind": "bin", "u1": u1, "u2": u2, "k1": k1, "k2": k2, "r1": r1, "r2": r2})
    if quick:
        keep = []
        cnt = {}
        for j, i in enumerate(insts):
            cnt[i["kind"]] = cnt.get(i["kind"], 0) + 1
            if i["kind"] in ("inv", "bin", "trig") and (j + ctx.seed) % 2 and not str(i.get("u", "")).startswith("decltype(Seconds{} / mag<"):
                continue
            keep.append(i)
        insts = keep
    canary = {"kind": "round", "src": "Feet", "dst": "Inches", "rep": "int32_t", "canary": True, "id": "canary"}
    for k, i in enumerate(insts):
        i["id"] = "f%d" % k
    pairs = lines_for(insts + [canary])
    cl = [ln for (i, ln) in pairs if i.get("canary")][0]
    pairs = [(i, ln) for (i, ln) in pairs if not i.get("canary")]
    for kind in ("round", "inv", "trig", "bin"):
        ctx.bump("instances_" + kind, sum(1 for i, _ in pairs if i["kind"] == kind))
    nsh = core.NCPU
    shards = [[] for _ in range(nsh)]
    for j, pr in enumerate(pairs):
        shards[j % nsh].append(pr)
    shard_list = [("s%02d" % j, emit([ln for _, ln in s] + ([cl] if j == 0 else [])), [i["id"] for i, _ in s] + (["canary"] if j == 0 else [])) for j, s in enumerate(shards) if s]
    vr = ValueRun(ctx, cfg=CFG, rc_cases=(40000 if quick else 400000))
    vr.run(shard_list)
    by_id = {i["id"]: (i, ln) for i, ln in pairs}
    by_id["canary"] = (canary, cl)
    for s, cr in vr.compile_errors:
        name, p, sids, text = s
        if isinstance(cr, str):
            raise RuntimeError(cr)
        if cr.resource_limited:
            ctx.inconclusive += len(sids); continue
        for iid in sids:
            src = emit([by_id[iid][1]]) + SINGLE
            c1 = core.compile_one(CFG, ctx.write("iso/%s.cc" % iid, src), syntax_only=True, flags=["-DAUV_SINGLE_TU"])
            if not c1.ok and not c1.resource_limited:
                if c1.harness_bug and "static assert" not in c1.err:
                    raise RuntimeError("C15 harness bug: " + c1.first_error() + "\n" + src[-600:])
                ctx.fail("C15: math function rejected or result unit/rep wrong (%s): %s" % (json.dumps(by_id[iid][0]), c1.first_error()),
                         {"mode": "syntax", "expect": "ok", "src": src, "cfg": list(CFG), "flags": ["-DAUV_SINGLE_TU"]})
    got = False
    for f in vr.fails:
        if f["inst"] == "canary":
            got = True; continue
        i, ln = by_id[f["inst"]]
        ctx.fail("C15: %s %s %s" % (f["msg"], json.dumps(f["input"]), json.dumps(i)),
                 {"mode": "run", "src": emit([ln]) + SINGLE, "cfg": list(CFG), "flags": vr.flags + ["-DAUV_SINGLE_TU"], "args": ["--one", f["inst"], f["input"]["x"], f["input"]["y"]], "env": SAN_ENV, "stdout": "AUVONE ok\n"}, detail=f)
    for d in vr.deaths:
        if d["inst"] == "canary":
            got = True; continue
        if d["inst"] not in by_id:
            raise RuntimeError("C15 value program died outside an instance: %s" % d)
        i, ln = by_id[d["inst"]]
        x = d["what"].split("x=")[1].split()[0]; y = d["what"].split("y=")[1].strip()
        ctx.fail("C15: crash/UB at x=%s y=%s %s: %s" % (x, y, json.dumps(i), d.get("stderr", "")[-250:].replace("\n", " | ")),
                 {"mode": "run", "src": emit([ln]) + SINGLE, "cfg": list(CFG), "flags": vr.flags + ["-DAUV_SINGLE_TU"], "args": ["--one", d["inst"], x, y], "env": SAN_ENV, "stdout": "AUVONE ok\n"})
    if not got and not vr.compile_errors:
        raise RuntimeError("C15 canary not reported")
    for s in vr.stats:
        if s["inst"] == "canary":
            continue
        ctx.count(s["evals"]); ctx.add_nontrivial_count(s["nt"])
        for kk in ("on_boundary", "in_band"):
            if kk in s["hist"]:
                ctx.bump(kk, s["hist"][kk])
        if len(ctx.cov["samples"]) < 8 and (len(ctx.cov["samples"]) < 2 or int(s["inst"][1:]) % 29 == 4):
            ctx.sample({"instance": by_id[s["inst"]][0], "evaluations": s["evals"]})
    # negative probes: implicit-rep integral inversion with K < 10^6 must not compile
    items, meta = [], []
    step = max(1, len(neg) // (30 if quick else 400))
    chosen = [x for x in neg if str(x[0]).startswith("decltype(Seconds{} / mag<")] + neg[::step]
    for j, (u, t, rep, Kf) in enumerate(chosen):
        form = ["inverse_in", "inverse_as"][j % 2]
        bad = "auto f(Quantity<%s, %s> q) { return %s(%s{}, q); }" % (cxx(u).replace("au::", ""), rep, form, cxx(t).replace("au::", ""))
        twin = "auto f(Quantity<%s, double> q) { return %s(%s{}, q); }" % (cxx(u).replace("au::", ""), form, cxx(t).replace("au::", ""))
        items.append((NEG_PRELUDE, bad, twin, core.CONFIGS[(ctx.seed + j) % 6])); meta.append((u, t, rep, Kf, form))
    for (u, t, rep, Kf, form), v in zip(meta, progs.judge_negative(ctx, items, tag="c15neg")):
        ctx.count(1)
        if v["status"] == "ok":
            ctx.nontrivial(("neg", u, t, rep, form))
        elif v["status"] == "accepted":
            ctx.fail("C15: %s(%s, Quantity<%s, %s>) compiles although the conversion constant K = %s is below 10^6" % (form, t, u, rep, Kf), {"mode": "syntax", "expect": "fail", "src": v["bad_src"], "cfg": list(v["cfg"])})
        elif v["status"] == "twin_failed":
            ctx.fail("C15: floating inversion %s(%s, Quantity<%s, double>) rejected: %s" % (form, t, u, v["twin"].first_error()), {"mode": "syntax", "expect": "ok", "src": v["twin_src"], "cfg": list(v["cfg"])})
        else:
            ctx.inconclusive += 1
    ctx.bump("negative_probes", len(items))
