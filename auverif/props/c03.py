"""C03 + C04 share one generated program (same instances, same values); evidence is split."""
import sys
from fractions import Fraction
from math import gcd

from hypothesis import strategies as st

from .. import core, hyp, reps
from ..valrun import ValueRun

if hasattr(sys, "set_int_max_str_digits"):
    sys.set_int_max_str_digits(20000)       # long double factors such as 10^4932 are printed as decimal literals

HEADER = '''#include "au/au.hh"
#include "au/units/meters.hh"
#include "conv.hh"
using namespace auv;
'''


def grid_factors(rep):
    mx = reps.rmax(rep)
    pmx = reps.rmax(reps.promoted(rep))
    bits = reps.BITS[rep]
    out = set()
    base = [(12, 1), (3, 1), (5280, 1), (127, 5000), (1143, 1250), (5, 9), (9, 5), (1000, 1), (1, 1000), (1024, 1),
            (1, 1024), (60, 1), (1, 60), (3600, 1), (86400, 1), (1, 3), (2, 3), (3, 2), (7, 128), (128, 7), (7, 32768),
            (1000000, 1), (1, 1000000), (1000000000, 1), (10, 1), (1, 10), (100, 1), (1, 100), (1, 2), (2, 1), (1, 1)]
    for n, d in base:
        out.add((n, d))
    for k in range(1, bits + 1):
        out.add((1 << k, 1)); out.add((1, 1 << k)); out.add((3, 1 << k)); out.add((1 << k, 3))
    k = 10
    while k <= mx * 10:
        out.add((k, 1)); out.add((1, k)); out.add((k, 7)); k *= 10
    for lim in {mx, pmx}:
        import math
        rt = math.isqrt(lim)
        for v in (lim, lim - 1, lim + 1, lim // 2, lim // 2 + 1, rt, rt + 1, rt - 1, lim // 3, lim // 7):
            if v >= 1:
                out.add((v, 1)); out.add((1, v))
                for o in (2, 3, 5, 7):
                    if gcd(v, o) == 1:
                        out.add((v, o)); out.add((o, v))
    for p in (2147483647, 2305843009213693951, 65537, 8191):
        out.add((p, 1)); out.add((1, p)); out.add((p, 2)); out.add((3, p))
    res = []
    for n, d in sorted(out):
        g = gcd(n, d)
        n, d = n // g, d // g
        if reps.conversion_compiles(rep, n, d) and (n, d) not in res:
            res.append((n, d))
    return res


@st.composite
def random_instance(draw):
    rep = draw(st.sampled_from(reps.INT_REPS))
    lim = reps.rmax(reps.promoted(rep))
    kind = draw(st.integers(0, 3))
    if kind == 0:
        n, d = draw(reps.smooth_number(reps.rmax(rep))), 1
    elif kind == 1:
        n, d = 1, draw(reps.smooth_number(reps.rmax(rep)))
    else:
        n, d = draw(reps.coprime_pair(lim))
    return {"rep": rep, "n": n, "d": d}


FLOAT_FACTORS = [(1, 1), (1000, 1), (1, 1000), (3, 1), (1, 3), (127, 5000), (5280, 1), (10 ** 30, 1), (1, 10 ** 30),
                 (2 ** 100, 1), (1, 2 ** 100), (9, 5), (3600, 1), (10 ** 9, 7)]


def emit(insts):
    """insts: list of dict(id, rep, n, d, canary, all32, permit) | dict(id, rep(float), n, d, canary)"""
    lines = [HEADER]
    body = []
    for i in insts:
        src = "au::Meters"
        dst = "decltype(au::Meters{} * %s)" % reps.mag_expr(i["d"], i["n"])  # unit_ratio(src,dst) = n/d
        if reps.is_int(i["rep"]):
            body.append('  { static const ConvSpec sp = {"%s", %dull, %dull, %d, %s, %s, %du, %du}; IntConv<%s, %s, %s, %s> c(sp); c.run(); }'
                        % (i["id"], i["n"], i["d"], reps.conv_category(i["n"], i["d"]), "true" if i.get("canary") else "false",
                           "true" if i.get("all32") else "false", i.get("slice", 0), i.get("nslices", 0), i["rep"], src, dst, "true" if i.get("permit") else "false"))
        else:
            f = Fraction(i["n"], i["d"])
            body.append('  { FloatConv<%s, %s, %s> c("%s", %d.0L / %d.0L, %s); c.run(); }'
                        % (i["rep"], src, dst, i["id"], i["n"], i["d"], "true" if i.get("canary") else "false"))
    lines.append("int main(int argc, char **argv) {\n  g_args = parse_args(argc, argv); install_death_callback();\n" + "\n".join(body) + "\n  return 0;\n}\n")
    return "\n".join(lines)


def build_instances(ctx, which="C03"):
    quick = ctx.quick()
    insts = []
    per_rep_grid = 28 if quick else 10 ** 9
    for rep in reps.INT_REPS:
        g = grid_factors(rep)
        # deterministic thinning for quick: always keep the structurally important ones, rotate the rest by seed
        if len(g) > per_rep_grid:
            keep = [x for x in g if x in ((1, 1), (12, 1), (127, 5000), (5, 9), (7, 128), (7, 32768), (1, 1000), (1000, 1))]
            rest = [x for x in g if x not in keep]
            off = ctx.seed % max(1, len(rest))
            rot = rest[off:] + rest[:off]
            step = max(1, len(rot) // (per_rep_grid - min(len(keep), per_rep_grid - 4)))
            g = keep + rot[::step]
        for n, d in g:
            insts.append({"rep": rep, "n": n, "d": d, "src": "grid"})
    ctx.bump("grid_instances", len(insts))
    rnd = hyp.collect(ctx, random_instance(), 300 if quick else 1500)
    nr = 0
    for r in rnd:
        if reps.conversion_compiles(r["rep"], r["n"], r["d"]):
            r["src"] = "random"
            insts.append(r)
            nr += 1
    ctx.bump("random_instances", nr)
    # dedupe, ids, model-permitted implicit conversion
    seen = set()
    out = []
    for i in insts:
        k = (i["rep"], i["n"], i["d"])
        if k in seen:
            continue
        seen.add(k)
        i["id"] = "i%d" % len(out)
        i["permit"] = reps.implicit_ok_same_rep(i["rep"], Fraction(i["n"], i["d"]))
        out.append(i)
    # thorough: exhaustive 2^32 for a rotating subset of 32-bit instances
    if not quick:
        c32 = [i for i in out if reps.BITS.get(i["rep"]) == 32]
        # each exhaustive 2^32 sweep costs ~10-15 minutes under ASan+UBSan: one per shard, rotating with the seed
        picked = 0
        for j, i in enumerate(c32):
            if (j + ctx.seed + (0 if which == "C03" else 1)) % max(1, len(c32) // core.NCPU) == 0 and picked < core.NCPU:   # C03 and C04 sweep different instances
                i["all32"] = True
                picked += 1
    # floating instances
    for rep in reps.FLOAT_REPS:
        dig, emax, emin, edenorm = reps.FLT[rep]
        p10 = len(str(2 ** emax)) - 1          # largest power of ten below max(rep)
        # factors next to the limits of the rep: overflow for |x| above ~1..8; reciprocals of integers at and beyond max(rep) (the latter are applied by multiplication)
        extreme = [(2 ** (emax - 1), 1), (3 * 2 ** (emax - 3), 1), (10 ** p10, 1), (10 ** (p10 - 1), 7), (1, 2 ** (emax - 1)), (1, 10 ** p10), (1, 10 ** (p10 + 2)), (1, 2 ** (emax + 3)), (3, 2 ** (emax + 2))]
        for n, d in FLOAT_FACTORS + extreme:
            f = Fraction(n, d)
            if rep == "long double" and max(n, d) > reps.rmax(rep):
                continue        # the harness passes the factor as n.0L / d.0L: both parts must be finite long doubles
            if f <= reps.rmax(rep) and f >= reps.fmin_denorm(rep) * 4:
                out.append({"rep": rep, "n": n, "d": d, "id": "f%d" % len(out), "src": "grid"})
    return out


def run(ctx, which):
    insts = build_instances(ctx, which)
    nsh = core.NCPU
    # balance: 8/16-bit exhaustive instances are cheap; spread by index
    shards = [[] for _ in range(nsh)]
    for k, i in enumerate(insts):
        shards[k % nsh].append(i)
    # canaries (wrong oracle on purpose: must be reported, else the loop is vacuous)
    canaries = [{"rep": "int16_t", "n": 3, "d": 2, "id": "canary_int", "canary": True, "permit": False},
                {"rep": "double", "n": 1000, "d": 1, "id": "canary_float", "canary": True}]
    shards[0] = canaries + shards[0]
    vr = ValueRun(ctx, rc_cases=(10000 if ctx.quick() else 100000),
                  extra_args=(["--thorough"] if not ctx.quick() else []))
    if not ctx.quick():
        # spread the exhaustive sweeps: one per shard
        # every shard process sweeps 1/nsh of the 2^32 values of EVERY heavy instance (balanced: no shard is a long tail)
        heavy = [i for i in insts if i.get("all32")]
        for s in shards:
            s[:] = [i for i in s if not i.get("all32")]
        insts = [i for i in insts if not i.get("all32")]
        for i in heavy:
            for k in range(nsh):
                part = dict(i, id="%sp%02d" % (i["id"], k), slice=k, nslices=nsh)
                shards[k].append(part); insts.append(part)
    vr.run([("s%02d" % k, emit(s), [i["id"] for i in s]) for k, s in enumerate(shards) if s], timeout=4 * 3600)
    by_id = {i["id"]: i for i in insts + canaries}
    # --- compile errors: a conversion the model says compiles must compile
    for s, cr in vr.compile_errors:
        name, p, ids, text = s
        if isinstance(cr, str):
            raise RuntimeError("harness link error: " + cr)
        if cr.resource_limited:
            ctx.inconclusive += len(ids)
            continue
        if cr.harness_bug:
            raise RuntimeError("harness bug in shard %s: %s" % (name, cr.first_error()))
        # isolate: recompile each instance alone
        for iid in ids:
            i = by_id[iid]
            src = emit([i])
            c1 = core.compile_one(vr.cfg, ctx.write("iso/%s.cc" % iid, src), syntax_only=True)
            if not c1.ok and not c1.resource_limited:
                ctx.fail("%s: conversion by %d/%d on %s does not compile although N,D are representable: %s"
                         % (which, i["n"], i["d"], i["rep"], c1.first_error()),
                         {"mode": "syntax", "expect": "ok", "src": src, "cfg": list(vr.cfg)})
    got_canary = {"canary_int": False, "canary_float": False}
    fail_ids = set()
    for f in vr.fails:
        if f["inst"] in got_canary:
            got_canary[f["inst"]] = True
            continue
        fail_ids.add(f["inst"])
        i = by_id[f["inst"]]
        is03 = f["msg"].startswith("C03")
        if (which == "C03") != is03:
            continue
        one = dict(i)
        ctx.fail("%s: %s  input=%s" % (which, f["msg"], json_s(f["input"])),
                 {"mode": "run", "src": single_tu(emit([one])), "cfg": list(vr.cfg), "flags": vr.flags + ["-DAUV_SINGLE_TU"],
                  "args": ["--one", one["id"], f["input"]["x"]], "env": dict(__import__("auverif.valrun", fromlist=["x"]).SAN_ENV),
                  "stdout": "AUVONE ok\n"}, detail=f)
    for d in vr.deaths:
        if d["inst"] in got_canary:
            continue
        i = by_id.get(d["inst"])
        if i is None:
            raise RuntimeError("value program died outside any instance: %s" % d)
        x = d["what"].split("x=")[-1].strip()
        # UB / crash inside the conversion: C03 ("no undefined behaviour") if the value was cleared,
        # otherwise it is in a checker call: report under C04 only if it is not sanitizer-in-checker on lossy input
        ctx.fail("%s: sanitizer/crash during %s : %s" % (which, d["what"], d.get("stderr", "")[-300:].replace("\n", " | ")),
                 {"mode": "run", "src": single_tu(emit([i])), "cfg": list(vr.cfg), "flags": vr.flags + ["-DAUV_SINGLE_TU"],
                  "args": ["--one", i["id"], x], "env": dict(__import__("auverif.valrun", fromlist=["x"]).SAN_ENV),
                  "stdout": "AUVONE ok\n"}, detail=d)
    if not all(got_canary.values()):
        raise RuntimeError("canary instance was not reported (vacuous loop?): %s" % got_canary)
    # --- evidence
    n_ex = 0
    for s in vr.stats:
        i = by_id.get(s["inst"])
        if i is None or i.get("canary"):
            continue
        h = s["hist"]
        if reps.is_int(i["rep"]):
            if which == "C03":
                ctx.count(h.get("c03_evals", 0)); ctx.add_nontrivial_count(h.get("c03_nt", 0))
            else:
                ctx.count(s["evals"]); ctx.add_nontrivial_count(s["nt"])
                one_sided = (h["ovf_true"] == 0 or h["ovf_false"] == 0) and (h["trunc_true"] == 0 or h["trunc_false"] == 0)
                ctx.bump("one_sided_instances" if one_sided else "two_sided_instances")
            ctx.bump("cleared_values", h.get("cleared", 0))
            ctx.bump("near_threshold_values", h.get("near_threshold", 0))
            if s.get("exhaustive"):
                n_ex += 1
        elif which == "C04":
            ctx.count(s["evals"]); ctx.add_nontrivial_count(s["nt"])
            ctx.bump("float_in_band", h.get("in_band", 0)); ctx.bump("float_instances")
        ctx.bump("instances_" + i["rep"].replace(" ", "_"))
        if len(ctx.cov["samples"]) < 8 and (int(s["inst"][1:].split("p")[0]) % 17 == 3 or len(ctx.cov["samples"]) < 2):
            ctx.sample({"rep": i["rep"], "N": str(i["n"]), "D": str(i["d"]), "evals": s["evals"], "hist": h})
    ctx.cov["exhaustive_instances"] = n_ex          # thorough: each 2^32 sweep is reported as 16 slice records
    ctx.cov["instances"] = len(vr.stats) - 2
    ctx.cov["compile_s_total"] = round(vr.total_compile_s, 1)


def json_s(d):
    import json
    return json.dumps(d, sort_keys=True)


def single_tu(src):
    return src + '\n#ifdef AUV_SINGLE_TU\n#include "auv_main.cc"\nnamespace auv { int rc_run(const char *, size_t, PropFn, void *, uint64_t *) { return 2; } }\n#endif\n'


RULE03 = ("instances (integral rep T, coprime N/D for which the conversion compiles): structured grid (library ratios, powers of 2/10, "
          "values straddling max(T), max(promoted T), sqrt, large primes) + Hypothesis-drawn smooth coprime pairs; values: all values for 8/16-bit "
          "reps (exhaustive loops), all 2^32 for a rotating subset in the thorough tier, otherwise +-3 neighbourhoods of every model threshold and "
          "multiples of D next to them plus rapidcheck draws (threshold/multiple-of-D/cleared-range/full-width classes). Oracle: exact __int128 "
          "x*N/D; program built with ASan+UBSan non-recoverable. Non-trivial = value cleared by is_conversion_lossy with factor != 1 and x != 0; "
          "distinct by (T,N,D,x) (64-bit hash set per instance, capped at 2^18, i.e. conservative).")
RULE04 = ("same instances and values as C03 plus float/double/long double instances; oracle: exact rational range/divisibility predicates "
          "(both directions asserted). Non-trivial = value within 3 of a model threshold or a (neighbour of a) multiple of D, factor != 1; for "
          "floating reps values within a factor 4 of the overflow edge or inside the 16-epsilon exclusion band; distinct by (T,N,D,x).")


def run_c03(ctx):
    ctx.cov["rule"] = RULE03
    ctx.assumptions += ["128-bit integer oracle is correct", "conversion-compiles model: N<=max(T) (integer), D<=max(T) (inverse), N,D<=max(promoted T) (rational)"]
    run(ctx, "C03")


def run_c04(ctx):
    ctx.cov["rule"] = RULE04
    ctx.assumptions += ["the property's z3 proof clause for 64-bit reps is outside this technique; 64-bit instances get boundary-complete + random search only",
                        "floating reps: 16-epsilon exclusion band around max/f in which either answer is accepted; NaN/inf unconstrained"]
    run(ctx, "C04")
