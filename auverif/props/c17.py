"""C17: std::chrono durations round-trip through quantities unchanged; mixed operations agree with chrono (value level + trait model)."""
import json
from fractions import Fraction as F
from math import gcd

from hypothesis import strategies as st

from .. import core, hyp, progs, reps
from ..valrun import SAN_ENV, ValueRun

CFG = ("g++", "c++20")
HEADER = '#include "au/au.hh"\n#include "au/units/seconds.hh"\n#include "c17.hh"\nusing namespace auv;\n'
SINGLE = '\n#ifdef AUV_SINGLE_TU\n#include "auv_main.cc"\nnamespace auv { int rc_run(const char *, size_t, PropFn, void *, uint64_t *) { return 2; } }\n#endif\n'
REPS = ["int32_t", "int64_t", "float", "double"]
PERIODS = [(1, 10 ** 9), (1, 10 ** 6), (1, 1000), (1, 1), (60, 1), (3600, 1), (1, 60), (1001, 30000), (86400, 1), (1, 3), (7, 5)]


@st.composite
def inst(draw):
    def per():
        if draw(st.integers(0, 2)):
            return list(draw(st.sampled_from(PERIODS)))
        n, d = draw(st.integers(1, 10 ** 6)), draw(st.integers(1, 10 ** 6))
        g = gcd(n, d)
        return [n // g, d // g]
    return {"r1": draw(st.sampled_from(REPS)), "p1": per(), "r2": draw(st.sampled_from(REPS)), "p2": per()}


def model(i):
    p1, p2 = F(*i["p1"]), F(*i["p2"])
    # chrono common period: gcd(num)/lcm(den)
    g = F(gcd(p1.numerator, p2.numerator), p1.denominator * p2.denominator // gcd(p1.denominator, p2.denominator))
    f1, f2 = p1 / g, p2 / g
    assert f1.denominator == 1 and f2.denominator == 1
    rc = reps.common_type(i["r1"], i["r2"])
    # Au accepts the mixed expression iff the implicit policy admits both scalings in the common rep
    ok = reps.implicit_ok_same_rep(rc, F(int(f1))) and reps.implicit_ok_same_rep(rc, F(int(f2))) and int(f1) < 2 ** 63 and int(f2) < 2 ** 63
    return int(f1), int(f2), ok


def line(i, iid, canary=False):
    f1, f2, ok = model(i)
    return '  { Chrono17<%s, %d, %d, %s, %d, %d, %s> c("%s", %dull, %dull, %s); c.run(); }' % (
        i["r1"], i["p1"][0], i["p1"][1], i["r2"], i["p2"][0], i["p2"][1], "true" if ok else "false", iid, f1 if f1 < 2 ** 64 else 0, f2 if f2 < 2 ** 64 else 0, "true" if canary else "false")


def emit(lines):
    return HEADER + "int main(int argc, char **argv) {\n  g_args = parse_args(argc, argv); install_death_callback();\n" + "\n".join(lines) + "\n  return 0;\n}\n"


TRAIT_PRELUDE = '#include "au/au.hh"\n#include "au/units/seconds.hh"\n#include "au/units/meters.hh"\n#include <chrono>\n#include <type_traits>\nusing namespace au;\n'


def trait_cases(ctx, insts):
    """a duration is implicitly accepted by a quantity type exactly when the corresponding quantity would be (and both equal the C06 model)"""
    items, meta = [], []
    targets = [("Seconds", F(1)), ("Milli<Seconds>", F(1, 1000)), ("Nano<Seconds>", F(1, 10 ** 9)), ("decltype(Seconds{} * mag<60>())", F(60)), ("decltype(Seconds{} * mag<1001>() / mag<30000>())", F(1001, 30000))]
    k = 0
    for i in insts:
        for (tu, tm) in targets:
            for r2 in ("int32_t", "int64_t", "double", "float"):
                if ctx.quick() and (k + ctx.seed) % 7:
                    k += 1; continue
                k += 1
                p = F(*i["p1"])
                M = reps.implicit_ok(i["r1"], r2, p / tm)
                dur = "std::chrono::duration<%s, std::ratio<%d, %d>>" % (i["r1"], i["p1"][0], i["p1"][1])
                body = ("using D = %s; using QC = decltype(as_quantity(std::declval<D>())); using QT = Quantity<%s, %s>;\n"
                        'static_assert(std::is_convertible<D, QT>::value == std::is_convertible<QC, QT>::value, "duration accepted exactly when the corresponding quantity is");\n'
                        'static_assert(std::is_convertible<D, QT>::value == %s, "acceptance equals the documented policy");\n'
                        'static_assert(std::is_convertible<QT, D>::value == std::is_convertible<QT, QC>::value, "quantity -> duration accepted exactly when quantity -> corresponding quantity is");\n'
                        'static_assert(!std::is_convertible<D, Quantity<Meters, double>>::value, "a duration is never a length");\n'
                        % (dur, tu, r2, "true" if M else "false"))
                items.append((TRAIT_PRELUDE, body, core.CONFIGS[(ctx.seed + k) % 6])); meta.append((i, tu, r2, M))
    for (i, tu, r2, M), v in zip(meta, progs.judge_positive(ctx, items, group=10, tag="c17trait")):
        ctx.count(4)
        if v.ok:
            ctx.nontrivial(("trait", i["r1"], i["p1"], tu, r2))
        elif v.inconclusive:
            ctx.inconclusive += 1
        else:
            ctx.fail("C17: acceptance of duration<%s, ratio<%d,%d>> by Quantity<%s, %s> (model %s) [%s]: %s" % (i["r1"], i["p1"][0], i["p1"][1], tu, r2, M, core.cfg_name(v.cfg), v.cr.first_error()),
                     {"mode": "syntax", "expect": "ok", "src": v.src, "cfg": list(v.cfg)})
    ctx.bump("trait_cases", len(items))


def run(ctx):
    ctx.cov["rule"] = ("instances (Rep1, Period1, Rep2, Period2) with Rep in {int32,int64,float,double} and Period in {nano..hours-like typedef ratios, 1/60, 1001/30000, 86400, 1/3, 7/5} plus "
                       "Hypothesis-drawn ratios with n,d <= 10^6 (grid of all rep pairs x period pairs, thinned in quick); values: a 12x12 special grid (0, +-1, limits, NaN/inf/-0, 0.1f, "
                       "100.00000149011612) and rapidcheck draws (small, raw, overflow-edge, near-equal across periods); checks: as_quantity(d) holds d's count bit-for-bit with d's rep "
                       "and unit seconds x Period; implicit and as_chrono_duration round trips return the count and the same Period; Dur z = ZERO is 0; for instances the policy model "
                       "admits, == != < <= > >= + - between a duration and a quantity in both operand orders equal chrono's own results on the corresponding durations whenever the "
                       "model says chrono's computation (counts x integer factor to the common period in the common rep, then the raw sum/difference) does not overflow; built and run "
                       "as C++20 (so the spaceship-synthesised paths are exercised) and syntax-checked under the other configurations; acceptance traits: is_convertible<Dur, Quantity> "
                       "== is_convertible<corresponding Quantity, Quantity> == C06 model. Non-trivial: Period != 1 or mixed periods; distinct by (instance, counts).")
    ctx.assumptions += ["mixed operations are only compared on instances for which Au's implicit-conversion policy admits both scalings in the common rep (chrono has no such refusal)"]
    quick = ctx.quick()
    insts = []
    k = 0
    for r1 in REPS:
        for r2 in REPS:
            for p1 in PERIODS:
                for p2 in PERIODS:
                    k += 1
                    if quick and (k + ctx.seed) % 11:
                        continue
                    if not quick and (k + ctx.seed) % 2:
                        continue
                    insts.append({"r1": r1, "p1": list(p1), "r2": r2, "p2": list(p2)})
    # the periods of the C++20 calendar typedefs (std::chrono::days/weeks/months/years = duration<int64_t, ratio<86400 / 604800 / 2629746 / 31556952>>):
    # the program is built as C++20, where these exact types exist and any dedicated mapping for them would take precedence over the generic one
    for p1 in ((31556952, 1), (2629746, 1), (604800, 1), (86400, 1)):
        for r2, p2 in (("int64_t", (1, 1)), ("double", (3600, 1)), ("int64_t", (86400, 1)), ("int64_t", p1)):
            insts.append({"r1": "int64_t", "p1": list(p1), "r2": r2, "p2": list(p2)})
    ctx.bump("grid_instances", len(insts))
    rnd = hyp.collect(ctx, inst(), 40 if quick else 400)
    insts += rnd
    lines = [line(i, "h%d" % j) for j, i in enumerate(insts)]
    ctx.bump("mixed_admitted_instances", sum(1 for i in insts if model(i)[2]))
    can = line({"r1": "int64_t", "p1": [1, 1000], "r2": "int64_t", "p2": [1, 1]}, "canary", canary=True)
    nsh = core.NCPU
    shards = [[] for _ in range(nsh)]
    for j in range(len(lines)):
        shards[j % nsh].append(j)
    shard_list = [("s%02d" % j, emit([lines[x] for x in s] + ([can] if j == 0 else [])), ["h%d" % x for x in s] + (["canary"] if j == 0 else [])) for j, s in enumerate(shards) if s]
    vr = ValueRun(ctx, cfg=CFG, rc_cases=(20000 if quick else 300000))
    vr.run(shard_list)
    by_id = {"h%d" % j: (insts[j], lines[j]) for j in range(len(lines))}
    by_id["canary"] = ({}, can)
    for s, cr in vr.compile_errors:
        name, p, sids, text = s
        if isinstance(cr, str):
            raise RuntimeError(cr)
        if cr.resource_limited:
            ctx.inconclusive += len(sids); continue
        for iid in sids:
            src = emit([by_id[iid][1]]) + SINGLE
            c1 = core.compile_one(CFG, ctx.write("iso/%s.cc" % iid, src), syntax_only=True, flags=["-DAUV_SINGLE_TU"])
            if not c1.ok and not c1.resource_limited:
                if c1.harness_bug and "static assert" not in c1.err:
                    raise RuntimeError("C17 harness bug: " + c1.first_error() + "\n" + src[-600:])
                ctx.fail("C17: chrono interop rejected / wrong rep, unit or period for %s: %s" % (json.dumps(by_id[iid][0]), c1.first_error()),
                         {"mode": "syntax", "expect": "ok", "src": src, "cfg": list(CFG), "flags": ["-DAUV_SINGLE_TU"]})
    others = [c for c in core.CONFIGS if c != CFG]
    jobs = [(name, text, cfg) for k, (name, text, ids) in enumerate(shard_list) for cfg in (others if not quick else [others[(ctx.seed + k) % 5]])]
    for (name, text, cfg), cr in zip(jobs, core.pmap(lambda j: core.compile_one(j[2], ctx.write("cfgs/%s.cc" % j[0], j[1]), syntax_only=True), jobs)):
        ctx.count(1)
        if not cr.ok and not cr.resource_limited:
            ctx.fail("C17: chrono interop program accepted by %s but rejected by %s: %s" % (core.cfg_name(CFG), core.cfg_name(cfg), cr.first_error()), {"mode": "syntax", "expect": "ok", "src": text, "cfg": list(cfg)})
    got = False
    for f in vr.fails:
        if f["inst"] == "canary":
            got = True; continue
        i, ln = by_id[f["inst"]]
        ctx.fail("C17: %s %s %s" % (f["msg"], json.dumps(f["input"]), json.dumps(i)),
                 {"mode": "run", "src": emit([ln]) + SINGLE, "cfg": list(CFG), "flags": vr.flags + ["-DAUV_SINGLE_TU"], "args": ["--one", f["inst"], f["input"]["x"], f["input"]["y"]], "env": SAN_ENV, "stdout": "AUVONE ok\n"}, detail=f)
    for d in vr.deaths:
        if d["inst"] == "canary":
            got = True; continue
        if d["inst"] not in by_id:
            raise RuntimeError("C17 value program died outside an instance: %s" % d)
        i, ln = by_id[d["inst"]]
        x = d["what"].split("x=")[1].split()[0]; y = d["what"].split("y=")[1].strip()
        ctx.fail("C17: crash/UB (chrono's own computation does not overflow per the model) at x=%s y=%s %s: %s" % (x, y, json.dumps(i), d.get("stderr", "")[-250:].replace("\n", " | ")),
                 {"mode": "run", "src": emit([ln]) + SINGLE, "cfg": list(CFG), "flags": vr.flags + ["-DAUV_SINGLE_TU"], "args": ["--one", d["inst"], x, y], "env": SAN_ENV, "stdout": "AUVONE ok\n"})
    if not got and not vr.compile_errors:
        raise RuntimeError("C17 canary not reported")
    for s in vr.stats:
        if s["inst"] == "canary":
            continue
        ctx.count(s["evals"]); ctx.add_nontrivial_count(s["nt"])
        ctx.bump("mixed_evaluated", s["hist"].get("mixed_evaluated", 0)); ctx.bump("skipped_chrono_overflow", s["hist"].get("skipped_chrono_overflow", 0))
        if len(ctx.cov["samples"]) < 7 and (len(ctx.cov["samples"]) < 2 or int(s["inst"][1:]) % 31 == 6):
            ctx.sample({"instance": by_id[s["inst"]][0], "evaluations": s["evals"], "hist": s["hist"]})
    trait_cases(ctx, insts[:: max(1, len(insts) // (12 if quick else 60))])
