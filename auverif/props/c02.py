"""C02: unit algebra is exact and canonical (program level)."""
import copy
import json
from fractions import Fraction as F

from hypothesis import strategies as st

from .. import core, hyp, model, progs, units
from ..model import TABLE

# physical definitions of derived units as expansions (used to build *equivalent via another route* pairs)
def L(n): return {"k": "leaf", "n": n}
def P(p, n): return {"k": "pre", "p": p, "n": n}
def mul(a, b): return {"k": "mul", "a": a, "b": b}
def div(a, b): return {"k": "div", "a": a, "b": b}
def pw(a, n, d=1): return {"k": "pow", "a": a, "n": n, "d": d}
def sc(a, num, den=1, pi=(0, 1)): return {"k": "scale", "a": a, "num": num, "den": den, "pi": list(pi)}


EXPANSIONS = {
    "Newtons": div(mul(P("Kilo", "Grams"), L("Meters")), pw(L("Seconds"), 2)),
    "Joules": mul(L("Newtons"), L("Meters")),
    "Watts": div(L("Joules"), L("Seconds")),
    "Pascals": div(L("Newtons"), pw(L("Meters"), 2)),
    "Coulombs": mul(L("Amperes"), L("Seconds")),
    "Volts": div(L("Watts"), L("Amperes")),
    "Ohms": div(L("Volts"), L("Amperes")),
    "Siemens": pw(L("Ohms"), -1),
    "Farads": div(L("Coulombs"), L("Volts")),
    "Webers": mul(L("Volts"), L("Seconds")),
    "Tesla": div(L("Webers"), pw(L("Meters"), 2)),
    "Henries": div(L("Webers"), L("Amperes")),
    "Grays": div(L("Joules"), P("Kilo", "Grams")),
    "Katals": div(L("Moles"), L("Seconds")),
    "Lumens": mul(L("Candelas"), L("Steradians")),
    "Lux": div(L("Lumens"), pw(L("Meters"), 2)),
    "Hertz": pw(L("Seconds"), -1),
    "Feet": sc(L("Inches"), 12),
    "Yards": sc(L("Feet"), 3),
    "Miles": sc(L("Feet"), 5280),
    "Fathoms": sc(L("Feet"), 6),
    "Furlongs": sc(L("Yards"), 220),
    "Inches": sc(L("Meters"), 254, 10000),
    "NauticalMiles": sc(L("Meters"), 1852),
    "Minutes": sc(L("Seconds"), 60),
    "Hours": sc(L("Minutes"), 60),
    "Days": sc(L("Hours"), 24),
    "Degrees": sc(L("Radians"), 1, 180, (1, 1)),
    "Revolutions": sc(L("Degrees"), 360),
    "Arcminutes": sc(L("Degrees"), 1, 60),
    "Arcseconds": sc(L("Arcminutes"), 1, 60),
    "Steradians": pw(L("Radians"), 2),
    "Bytes": sc(L("Bits"), 8),
    "Bars": sc(L("Pascals"), 100000),
    "Liters": pw(P("Deci", "Meters"), 3),
    "USGallons": sc(pw(L("Inches"), 3), 231),
    "USQuarts": sc(L("USGallons"), 1, 4),
    "USPints": sc(L("USQuarts"), 1, 2),
    "PoundsMass": sc(L("Grams"), 45359237, 100000),
    "StandardGravity": sc(div(L("Meters"), pw(L("Seconds"), 2)), 980665, 100000),
    "PoundsForce": mul(L("PoundsMass"), L("StandardGravity")),
    "Slugs": div(mul(L("PoundsForce"), pw(L("Seconds"), 2)), L("Feet")),
    "Knots": div(L("NauticalMiles"), L("Hours")),
    "Percent": sc(L("Unos"), 1, 100),
    "Fahrenheit": sc(L("Kelvins"), 5, 9),
    "Celsius": L("Kelvins"),
}


def expand_one(t, which):
    """replace the which-th expandable leaf by its physical definition"""
    cnt = [0]

    def rec(x):
        if x["k"] == "leaf" and x["n"] in EXPANSIONS:
            if cnt[0] == which:
                cnt[0] += 1
                return copy.deepcopy(EXPANSIONS[x["n"]])
            cnt[0] += 1
            return x
        if x["k"] == "pre" and x["n"] in EXPANSIONS and False:
            return x
        y = dict(x)
        for c in ("a", "b"):
            if c in y and isinstance(y[c], dict):
                y[c] = rec(y[c])
        return y
    return rec(t)


def n_expandable(t):
    return sum(1 for lf in units.leaves(t) if lf["k"] == "leaf" and lf["n"] in EXPANSIONS)


@st.composite
def case(draw):
    kind = draw(st.sampled_from(["dimmag", "dimmag", "pair_equiv", "pair_near", "pair_rand", "spell", "named"]))
    c = {"kind": kind}
    if kind == "dimmag":
        c["t"] = draw(st.one_of(units.tree(max_leaves=6), units.tree(max_leaves=6), units.tree(max_leaves=6), units.opaque_power(),
                                st.builds(lambda a, b: {"k": "mul", "a": a, "b": b}, units.opaque_power(), units.tree(max_leaves=2))))
        c["mode"] = draw(st.sampled_from(["unit", "maker", "symbol", "constant", "singular"]))
    elif kind == "named":
        c["defs"] = [{"id": 0, "tree": draw(units.tree(max_leaves=3)), "label": draw(st.booleans())}]
        c["t"] = draw(units.tree(max_leaves=4, named_ids=(0,)))
        c["mode"] = draw(st.sampled_from(["unit", "constant"]))
    elif kind == "pair_equiv":
        t = draw(units.tree(max_leaves=5))
        c["t"] = t
        c["route"] = draw(st.integers(0, 3))
        c["which"] = draw(st.integers(0, 5))
    elif kind == "pair_near":
        c["t"] = draw(units.tree(max_leaves=5))
        c["near"] = draw(st.sampled_from(["prime", "thousand", "pi", "exp", "dim"]))
        c["p"] = draw(st.sampled_from([2, 3, 5, 7, 127, 65537]))
    elif kind == "pair_rand":
        c["t"] = draw(units.tree(max_leaves=4))
        c["t2"] = draw(units.tree(max_leaves=4))
    else:  # spell: flat product of named units with integer/rational powers, two arrangements
        nf = draw(st.integers(2, 5))
        fs = []
        for _ in range(nf):
            fs.append([draw(st.sampled_from(units.NO_TWIN_LEAVES)), list(draw(st.sampled_from(units.EXPS)))])
        c["factors"] = fs
        c["perm"] = draw(st.permutations(list(range(nf))))
        c["assoc_left"] = draw(st.booleans())
        c["mode2"] = draw(st.sampled_from(["unit", "maker", "symbol", "alias"]))
    return c


def arrange(factors, order, left, use_div):
    """build a tree from (leaf, exponent) factors"""
    nodes = []
    for i in order:
        n, (en, ed) = factors[i]
        lf = L(n)
        neg = use_div and en < 0
        e = (abs(en), ed) if neg else (en, ed)
        node = lf if e == (1, 1) else pw(lf, e[0], e[1])
        nodes.append((node, neg))
    # ensure first element is not "divided"
    pos = [x for x in nodes if not x[1]]
    negs = [x for x in nodes if x[1]]
    seq = pos + negs
    if not pos:
        first = pw(seq[0][0], -1)
        seq = [(first, False)] + seq[1:]
    acc = seq[0][0]
    rest = seq[1:]
    if left:
        for node, neg in rest:
            acc = div(acc, node) if neg else mul(acc, node)
    else:
        # right-nested products of the positive part, then divisions
        posn = [x[0] for x in seq if not x[1]]
        acc = posn[-1]
        for node in reversed(posn[:-1]):
            acc = mul(node, acc)
        for node, neg in seq:
            if neg:
                acc = div(acc, node)
    return acc


def canonical_alias(t):
    """for a pure product/quotient/power tree over named (library or prefixed) units: the type the statement demands, spelled by another route --
    UnitProductT over each distinct unit raised to its net exact exponent (algebraically equal products/powers produce the identical type)"""
    net, order = {}, []

    def rec(x, e):
        k = x["k"]
        if k in ("leaf", "pre"):
            key = "au::%s" % x["n"] if k == "leaf" else "au::%s<au::%s>" % (x["p"], x["n"])
            if key not in net:
                net[key] = F(0); order.append(key)
            net[key] += e
            return True
        if k == "mul":
            return rec(x["a"], e) and rec(x["b"], e)
        if k == "div":
            return rec(x["a"], e) and rec(x["b"], -e)
        if k == "pow":
            return rec(x["a"], e * F(x["n"], x["d"]))
        return False
    if not rec(t, F(1)):
        return None
    parts = []
    for key in order:
        e = net[key]
        if e == 0:
            continue
        parts.append(key if e == 1 else "au::UnitPowerT<%s, %d, %d>" % (key, e.numerator, e.denominator))
    if not parts:
        return None
    return "au::UnitProductT<%s>" % ", ".join(parts)


def alias_spelling(factors):
    parts = []
    for n, (en, ed) in factors:
        if (en, ed) == (1, 1):
            parts.append("au::%s" % n)
        else:
            parts.append("au::UnitPowerT<au::%s, %d, %d>" % (n, en, ed))
    return "au::UnitProductT<%s>" % ", ".join(parts)


def prepare(c):
    """case -> (prelude, body, nontrivial, excluded_twins) or None when the case degenerates"""
    kind = c["kind"]
    defs = c.get("defs")
    body = []
    trees = []
    ntwins = 0
    if kind in ("dimmag", "named"):
        t = copy.deepcopy(c["t"])
        ntwins += units.fix_twins([t], defs)
        if not units.total_exponent_ok(t, defs):
            return None
        u = units.evaluate(t, defs)
        mode = c["mode"] if units.can_render(t, c["mode"]) else "unit"
        e = units.render(t, mode)
        body.append("using E = %s;" % units.assoc(e))
        body.append('static_assert(std::is_same<au::detail::DimT<E>, %s>::value, "dimension");' % model.spell_dim(u.dim))
        body.append('static_assert(std::is_same<au::detail::MagT<E>, %s>::value, "magnitude");' % model.spell_mag(u.mag))
        if mode != "unit":
            body.append('static_assert(std::is_same<E, %s>::value, "spelling changes the unit type");' % units.assoc(units.render_unit(t)))
        ca = canonical_alias(t) if kind == "dimmag" else None
        if ca is not None:
            body.append('static_assert(std::is_same<E, %s>::value, "algebraically equal product/power of the same named units is not the identical type");' % ca)
        trees = [t]
        nleaves = len(set(units.leaf_spelling(x) for x in units.leaves(t)))
        nt = nleaves >= 3 or any(v.denominator != 1 for v in list(u.dim.values()) + list(u.mag.values())) or "scale" in json.dumps(t) or kind == "named"
        c["_mode_used"] = mode
    elif kind.startswith("pair"):
        t1 = copy.deepcopy(c["t"])
        if kind == "pair_equiv":
            ne = n_expandable(t1)
            r = c["route"]
            if r == 0 and ne:
                t2 = expand_one(t1, c["which"] % ne)
            elif r == 1:
                t2 = div(mul(copy.deepcopy(t1), L("Seconds")), L("Seconds"))          # (E*s)/s
            elif r == 2:
                t2 = pw(pw(copy.deepcopy(t1), 2), 1, 2)                              # sqrt(E^2)
            else:
                t2 = sc(sc(copy.deepcopy(t1), 7, 3), 3, 7)                           # scale and unscale
        elif kind == "pair_near":
            nr = c["near"]
            if nr == "prime":
                t2 = sc(copy.deepcopy(t1), c["p"])
            elif nr == "thousand":
                t2 = sc(copy.deepcopy(t1), 1, 1000)
            elif nr == "pi":
                t2 = sc(copy.deepcopy(t1), 1, 1, (1, 1))
            elif nr == "exp":
                t2 = mul(copy.deepcopy(t1), pw(L("Meters"), 1, 2))
            else:
                t2 = mul(copy.deepcopy(t1), L("Radians"))
        else:
            t2 = copy.deepcopy(c["t2"])
        ntwins += units.fix_twins([t1]) + units.fix_twins([t2])
        if not (units.total_exponent_ok(t1) and units.total_exponent_ok(t2)):
            return None
        u1, u2 = units.evaluate(t1), units.evaluate(t2)
        e1, e2 = units.render_unit(t1), units.render_unit(t2)
        same_dim = u1.dim == u2.dim
        equiv = same_dim and u1.mag == u2.mag
        body.append('static_assert(au::has_same_dimension(%s, %s) == %s, "has_same_dimension");' % (e1, e2, "true" if same_dim else "false"))
        body.append('static_assert(au::are_units_quantity_equivalent(%s, %s) == %s, "are_units_quantity_equivalent");' % (e1, e2, "true" if equiv else "false"))
        body.append('static_assert(au::AreUnitsQuantityEquivalent<decltype(%s), decltype(%s)>::value == %s, "symmetric");' % (e2, e1, "true" if equiv else "false"))
        if same_dim:
            ratio = u1.ratio(u2)
            body.append('static_assert(std::is_same<decltype(au::unit_ratio(%s, %s)), %s>::value, "unit_ratio");' % (e1, e2, model.spell_mag(ratio)))
            if model.mag_is_rational(ratio):
                fr = model.mag_fraction(ratio)
                if fr.denominator == 1 and fr.numerator < 2 ** 63:
                    body.append('static_assert(au::get_value<std::uint64_t>(au::unit_ratio(%s, %s)) == %dull, "ratio value");' % (e1, e2, fr.numerator))
        trees = [t1, t2]
        nt = (json.dumps(t1, sort_keys=True) != json.dumps(t2, sort_keys=True))
        c["_equiv"] = equiv
        c["_same_dim"] = same_dim
    else:  # spell
        fs = c["factors"]
        # merge duplicate leaves (sum exponents) to know the canonical result; drop zero
        merged = {}
        for n, (en, ed) in fs:
            merged[n] = merged.get(n, F(0)) + F(en, ed)
        # twin classes: each leaf is its own class except library twins (excluded from NO_TWIN_LEAVES already)
        order1 = list(range(len(fs)))
        t1 = arrange(fs, order1, True, False)
        t2 = arrange(fs, list(c["perm"]), c["assoc_left"], True)
        ntwins += units.fix_twins([t1, t2])
        u = units.evaluate(t1)
        m2 = c["mode2"]
        if m2 == "alias":
            s2 = alias_spelling(fs)
            # alias spelling uses the original leaves: only valid if no twin replacement happened
            if ntwins:
                s2 = units.assoc(units.render_unit(t2))
        else:
            mode = m2 if units.can_render(t2, m2) else "unit"
            s2 = units.assoc(units.render(t2, mode))
        body.append("using A = %s;\nusing B = %s;" % (units.assoc(units.render_unit(t1)), s2))
        body.append('static_assert(std::is_same<A, B>::value, "equal products/powers of the same named units must be the identical type");')
        body.append('static_assert(std::is_same<au::detail::DimT<A>, %s>::value, "dimension");' % model.spell_dim(u.dim))
        body.append('static_assert(std::is_same<au::detail::MagT<B>, %s>::value, "magnitude");' % model.spell_mag(u.mag))
        trees = [t1, t2]
        nt = len(fs) >= 3 or any(ed != 1 for _, (en, ed) in fs)
    prelude = model.ALL_INCLUDES + "\n#include <cstdint>\n#include <type_traits>\n"
    return prelude, units.render_defs(defs) + "\n" + "\n".join(body), nt, ntwins


def grid_cases():
    """every library unit: spelled Dimension/Magnitude (table cross-check) + maker/symbol/singular spellings + each expansion"""
    out = []
    for n in model.UNIT_NAMES:
        for mode in ("unit", "maker", "symbol", "singular", "constant"):
            out.append({"kind": "dimmag", "t": L(n), "mode": mode, "grid": True})
    for n in sorted(EXPANSIONS):
        out.append({"kind": "pair_rand", "t": L(n), "t2": copy.deepcopy(EXPANSIONS[n]), "grid": True, "expect_equiv": True})
    for p in sorted(model.PREFIXES):
        out.append({"kind": "dimmag", "t": P(p, "Meters"), "mode": "maker", "grid": True})
        out.append({"kind": "dimmag", "t": P(p, "Bytes"), "mode": "symbol", "grid": True})
    return out


def run(ctx):
    ctx.cov["rule"] = ("cases drawn by Hypothesis: (dimmag) an expression tree (<=6 leaves over the 57 library units minus twins, 32 prefixes, generated named "
                       "units, * / pow root with exponents in {+-1..4, 1/2, 1/3, 2/3, 3/2, -1/2}, scalings by rationals and pi powers) rendered in one of five "
                       "spellings (unit types, quantity makers, singular names, symbols, constants): detail::DimT / detail::MagT must be is_same as the "
                       "model-spelled canonical Dimension<>/Magnitude<> and the spelling must not change the unit type; (pair) two trees that are equal by "
                       "another route (physical definition expanded, (E*s)/s, sqrt(E^2), scale/unscale), near misses (one prime, 10^3, pi, half a metre, an "
                       "angle apart) or independent: has_same_dimension, are_units_quantity_equivalent (both orders), unit_ratio type and integer value vs "
                       "model; (spell) permuted/re-associated products of powers of named units must be the identical type; (scaledperm) every order and grouping of two anonymous scalings of one length unit with a scaling of another must be the identical type and their quotients cancel to UnitProductT<>. A fixed grid (every library unit "
                       "x 5 spellings, every derived unit vs its physical definition, every prefix) runs first. Twin units are replaced by construction. "
                       "Each TU is compiled under one of the six configurations (rotating; thorough: all six). Non-trivial: >=3 distinct leaves, a rational "
                       "exponent, a scaling or a named unit; for pairs the two sides differ syntactically; distinct by canonical JSON of the case.")
    ctx.assumptions += ["unit table written from physical definitions (model.py) is the oracle; compile verdict of static_assert is the observation",
                        "cases hitting the documented 'Broken strict total ordering' limitation are excluded, never failures"]
    quick = ctx.quick()
    counter = {"i": 0}

    def judge(cases):
        prepped = [prepare(copy.deepcopy(c)) for c in cases]
        items, back = [], []
        for k, (c, pr) in enumerate(zip(cases, prepped)):
            if pr is None:
                ctx.bump("degenerate_case_skipped")
                continue
            prelude, body, nt, ntw = pr
            cfgs = core.CONFIGS if not quick else [core.CONFIGS[(ctx.seed + counter["i"] + k) % 6]]
            for cfg in cfgs:
                items.append((prelude, body, cfg))
                back.append((k, nt, ntw))
        counter["i"] += len(cases)
        vs = progs.judge_positive(ctx, items, group=12, tag="c02")
        out = [None] * len(cases)
        for (k, nt, ntw), v, it in zip(back, vs, items):
            c = cases[k]
            ctx.count(1)
            ctx.bump("kind_" + c["kind"])
            ctx.bump("cfg_" + core.cfg_name(it[2]))
            if ntw:
                ctx.bump("excluded_documented_limitation_twins_replaced", ntw)
            if v.ok:
                if nt:
                    ctx.nontrivial(c)
                continue
            if v.inconclusive:
                ctx.inconclusive += 1
                continue
            if progs.is_documented_ordering_limitation(v.cr):
                ctx.bump("excluded_documented_limitation_hit")
                continue
            if out[k] is None:
                out[k] = {"what": "C02 %s [%s]: %s" % (c["kind"], core.cfg_name(it[2]), v.cr.first_error()),
                          "replay": {"mode": "syntax", "expect": "ok", "src": v.src, "cfg": list(it[2])}}
        return out

    # grid first (enumerated)
    g = grid_cases()
    gv = judge(g)
    ctx.cov["grid_cases"] = len(g)
    for c, v in zip(g, gv):
        if v is not None:
            ctx.fail(v["what"] + " (grid: %s)" % json.dumps(c)[:200], v["replay"], detail={"case": c})
    # (scaledperm) anonymous scalings: two scalings of ONE named unit and one (or two) of another unit of the same dimension, every order and both groupings --
    # "algebraically equal products ... produce the identical type".  Triples containing two units of equal magnitude are skipped (documented ordering limitation).
    import itertools, random as _r
    from fractions import Fraction as F
    SP_BASES = {"Feet": F(3048, 10000), "Inches": F(254, 10000), "Yards": F(9144, 10000), "Meters": F(1), "Miles": F(1609344, 1000), "Fathoms": F(18288, 10000)}
    SP_BASES = {k: v for k, v in SP_BASES.items() if k in model.UNIT_NAMES}
    SP_SC = [("mag<2>()", F(2)), ("mag<3>()", F(3)), ("mag<5>()", F(5)), ("(mag<7>() / mag<2>())", F(7, 2)), ("(mag<1>() / mag<3>())", F(1, 3)), ("mag<1000>()", F(1000))]
    sp_all = []
    for X, Y in itertools.permutations(sorted(SP_BASES), 2):
        for (s1, f1), (s2, f2) in itertools.combinations(SP_SC, 2):
            for s3, f3 in SP_SC:
                mags = [SP_BASES[X] * f1, SP_BASES[X] * f2, SP_BASES[Y] * f3]
                if len(set(mags)) == 3:
                    sp_all.append((X, s1, s2, Y, s3))
    _r.Random(ctx.seed * 7919 + 13).shuffle(sp_all)   # a pure function of VERIF_SEED
    sp_sel = sp_all[:96] if quick else sp_all
    sp_items = []
    for k, (X, s1, s2, Y, s3) in enumerate(sp_sel):
        b = "constexpr auto a = %s{} * %s; constexpr auto b = %s{} * %s; constexpr auto c = %s{} * %s;\n" % (X, s1, X, s2, Y, s3)
        b += "using Ref = decltype(a * b * c);\n"
        for e in ["a * c * b", "b * a * c", "b * c * a", "c * a * b", "c * b * a", "a * (b * c)", "(c * a) * b", "c * (b * a)", "b * (a * c)"]:
            b += 'static_assert(std::is_same<decltype(%s), Ref>::value, "scaledperm: %s is not the same type as a * b * c");\n' % (e, e)
        b += 'static_assert(std::is_same<decltype((a * b * c) / (c * b * a)), UnitProductT<>>::value, "scaledperm: (a*b*c)/(c*b*a) does not cancel");\n'
        b += 'static_assert(std::is_same<decltype((a * b) / (b * c) * (c / a)), UnitProductT<>>::value, "scaledperm: (a*b)/(b*c)*(c/a) does not cancel");\n'
        sp_items.append((model.ALL_INCLUDES + "\n#include <type_traits>\nusing namespace au;\n", b, core.CONFIGS[(ctx.seed + k) % 6]))
    for (X, s1, s2, Y, s3), it, v in zip(sp_sel, sp_items, progs.judge_positive(ctx, sp_items, group=12, tag="c02sp")):
        ctx.count(11)
        if v.ok:
            ctx.nontrivial({"kind": "scaledperm", "x": X, "s": [s1, s2], "y": Y, "t": s3})
        elif v.inconclusive:
            ctx.inconclusive += 1
        elif progs.is_documented_ordering_limitation(v.cr):
            ctx.bump("excluded_documented_limitation_hit")
        else:
            ctx.fail("C02 scaledperm %s*%s, %s*%s, %s*%s [%s]: %s" % (X, s1, X, s2, Y, s3, core.cfg_name(it[2]), v.cr.first_error()),
                     {"mode": "syntax", "expect": "ok", "src": v.src, "cfg": list(it[2])})
    ctx.cov["scaledperm_cases"] = len(sp_items)
    n_ex = 40 if quick else 200
    cache = hyp.run_batches(ctx, case(), judge, n_ex, 48, label="c02")
    judged = [json.loads(k) for k, (s, v) in cache.items() if s == "judged"]
    ctx.cov["random_cases"] = len(judged)
    for c in judged[:3] + judged[-3:]:
        ctx.sample(c)
