"""C20: behaviour is independent of packaging (single-file), language standard and compiler (program level, differential)."""
import glob
import json
import os

from hypothesis import strategies as st

from .. import core, hyp, model, progs, reps
from ..model import SPELL, TABLE

CONSTANTS = ["AVOGADRO_CONSTANT", "BOLTZMANN_CONSTANT", "CESIUM_HYPERFINE_TRANSITION_FREQUENCY", "ELEMENTARY_CHARGE", "LUMINOUS_EFFICACY_540_TERAHERTZ", "PLANCK_CONSTANT",
             "REDUCED_PLANCK_CONSTANT", "SPEED_OF_LIGHT", "STANDARD_GRAVITY"]
HEADER_OF = {n: SPELL[n][0] for n in SPELL}
REPS = ["int8_t", "uint8_t", "int16_t", "uint16_t", "int32_t", "int64_t", "uint64_t", "float", "double"]
F5_TEXT = ("a public-API statement accepted by g++ but rejected by clang++: unary -/+ and % on Quantity<U,R> with a sub-int rep (narrowing list-initialisation from int in quantity.hh)")

HELPERS = r'''
#include <cstdint>
#include <cstdio>
#include <cstdlib>
#include <cstring>
template <class T> static void auv_print(int k, T v) {
  if (std::is_floating_point<T>::value) std::printf("%d: %La\n", k, (long double)v);
  else if (std::is_signed<T>::value) std::printf("%d: %lld\n", k, (long long)v);
  else std::printf("%d: %llu\n", k, (unsigned long long)v);
}
static void auv_print(int k, bool v) { std::printf("%d: %s\n", k, v ? "true" : "false"); }
static void auv_print(int k, const char *s) { std::printf("%d: %s\n", k, s); }
static long long auv_arg(char **argv, int i) { return std::atoll(argv[i]); }
template <class Q, typename Q::NTTP V> struct AuvNttp { static constexpr Q value() { return from_nttp(V); } };
'''


@st.composite
def subset_case(draw):
    k = draw(st.sampled_from(["few", "few", "one", "none", "all", "many"]))
    names = sorted(TABLE)
    if k == "none":
        us = []
    elif k == "one":
        us = [draw(st.sampled_from(names))]
    elif k == "all":
        us = names
    elif k == "many":
        us = sorted(draw(st.sets(st.sampled_from(names), min_size=10, max_size=30)))
    else:
        us = sorted(draw(st.sets(st.sampled_from(names), min_size=2, max_size=6)))
    cs = sorted(draw(st.sets(st.sampled_from(CONSTANTS), min_size=0, max_size=3)))
    return {"units": us, "constants": cs, "io": draw(st.booleans()), "reps": [draw(st.sampled_from(REPS)) for _ in range(3)], "vals": [draw(st.integers(1, 100)) for _ in range(3)]}


def statements(c, f5_known):
    """API-surface statements for the chosen subset; each prints one line. Inputs come from argv (no constant folding)."""
    out = []
    us = c["units"][:8]
    k = 0

    def add(code):
        nonlocal k
        out.append("  { %s }" % code.replace("@K", str(k)))
        k += 1
    for ui, n in enumerate(us):
        mk = "au::" + SPELL[n][1]
        rep = c["reps"][ui % 3]
        sub = reps.BITS.get(rep, 32) < 32
        fl = rep in ("float", "double")
        add("auto q = %s(static_cast<%s>(a0)); auv_print(@K, q.in(%s));" % (mk, rep, mk))
        add("auto q = %s(static_cast<%s>(a0)) + %s(static_cast<%s>(a1)); auv_print(@K, q.in(%s));" % (mk, rep, mk, rep, mk))
        add("auto q = %s(static_cast<%s>(a0)) - %s(static_cast<%s>(a1)); auv_print(@K, q.in(%s));" % (mk, rep, mk, rep, mk))
        add("auv_print(@K, %s(static_cast<%s>(a0)) < %s(static_cast<%s>(a1)));" % (mk, rep, mk, rep))
        add("auv_print(@K, %s(static_cast<%s>(a0)) == %s(static_cast<%s>(a1)));" % (mk, rep, mk, rep))
        add("auto q = %s(static_cast<%s>(a0)) * static_cast<%s>(3); auv_print(@K, q.in(%s));" % (mk, rep, rep, mk))
        add("auto q = %s(static_cast<%s>(a0)); q += %s(static_cast<%s>(a1)); auv_print(@K, q.in(%s));" % (mk, rep, mk, rep, mk))
        add("auv_print(@K, static_cast<long long>(sizeof(%s(static_cast<%s>(a0)))));" % (mk, rep))
        if not (sub and f5_known):
            if not fl:
                add("auto q = %s(static_cast<%s>(a0)) %% %s(static_cast<%s>(a1)); auv_print(@K, q.in(%s));" % (mk, rep, mk, rep, mk))
            add("auto q = -%s(static_cast<%s>(a0)); auv_print(@K, q.in(%s));" % (mk, rep, mk))
        if fl:
            add("auto q = au::milli(%s)(static_cast<%s>(a0)); auv_print(@K, q.in(%s) * 1000);" % (mk, rep, mk))
            add("auv_print(@K, au::round_in(%s, %s(static_cast<%s>(a0)) / static_cast<%s>(4)));" % (mk, mk, rep, rep))
            add("auto q = au::sqrt(%s(static_cast<%s>(a0 * a0))); auv_print(@K, q.in(au::root<2>(%s)));" % (mk, rep, mk))
            add("auto q = au::sqrt(au::kilo(%s)(static_cast<%s>(a0 * a0))); auv_print(@K, q.in(au::root<2>(%s)));" % (mk, rep, mk))
            add("auto q = au::cbrt(au::milli(%s)(static_cast<%s>(a0))); auv_print(@K, q.in(au::root<3>(%s)));" % (mk, rep, mk))
            add("auto q = au::int_pow<2>(%s(static_cast<%s>(a0))); auv_print(@K, q.in(au::pow<2>(au::centi(%s))));" % (mk, rep, mk))
        elif rep in ("int32_t", "int64_t", "uint64_t"):
            add("auto q = au::kilo(%s)(static_cast<%s>(a0)); auv_print(@K, q.in(%s));" % (mk, rep, mk))
            add("auv_print(@K, au::is_conversion_lossy(%s(static_cast<%s>(a0)), au::kilo(%s)));" % (mk, rep, mk))
        add("auv_print(@K, (%s(static_cast<%s>(a0)) > au::ZERO));" % (mk, rep))
        if not fl:
            # pre-C++20 non-type template parameter support (Quantity::NTTP, from_nttp)
            add("using QN = decltype(%s(static_cast<%s>(5))); auv_print(@K, AuvNttp<QN, %s(static_cast<%s>(5))>::value().in(%s) + static_cast<%s>(a0));" % (mk, rep, mk, rep, mk, rep))
        if c["io"]:
            add("auv_print(@K, au::unit_label(%s));" % mk)
            add("std::ostringstream os; os << %s(static_cast<%s>(a0)); auv_print(@K, os.str().c_str());" % (mk, rep))
    for i in range(len(us) - 1):
        a, b = "au::" + SPELL[us[i]][1], "au::" + SPELL[us[i + 1]][1]
        add("auto q = %s(static_cast<double>(a0)) * %s(static_cast<double>(a1)); auv_print(@K, q.in(%s * %s));" % (a, b, a, b))
        add("auto q = %s(static_cast<double>(a0)) / %s(static_cast<double>(a2)); auv_print(@K, q.in(%s / %s));" % (a, b, a, b))
        if TABLE[us[i]].dim == TABLE[us[i + 1]].dim and TABLE[us[i]].origin == 0:
            add("auv_print(@K, %s(static_cast<double>(a0)) < %s(static_cast<double>(a1)));" % (a, b))
            add("auto q = %s(static_cast<double>(a0)) + %s(static_cast<double>(a1)); auv_print(@K, static_cast<long long>(sizeof(q)));" % (a, b))
    for cn in c["constants"]:
        add("auto q = static_cast<double>(a0) * au::%s; auv_print(@K, q.in(decltype(q)::unit));" % cn)
        add("auto q = au::%s.as<double>(); auv_print(@K, q.in(decltype(q)::unit));" % cn)
        if c["io"]:
            add("std::ostringstream os; os << au::%s; auv_print(@K, os.str().c_str());" % cn)
    # labels used at RUN time (odr-use of the label objects: before C++17 every static constexpr member needs its namespace-scope definition)
    add("auv_print(@K, au::mag_label(au::mag<3>() / au::mag<4>()));")
    add("auv_print(@K, au::mag_label(au::mag<5>()));")
    add("auv_print(@K, au::mag_label(au::Magnitude<au::Pi>{} / au::mag<2>()));")
    add("auv_print(@K, static_cast<long long>(sizeof(au::mag_label(au::mag<1000>() / au::mag<7>()))));")
    if us:
        mk0 = "au::" + SPELL[us[0]][1]
        add("auv_print(@K, au::unit_label(%s * au::mag<3>() / au::mag<4>()));" % mk0)
        add("auv_print(@K, au::unit_label(au::pow<2>(%s) / au::pow<3>(au::root<2>(%s * au::mag<5>()))));" % (mk0, mk0))
        add("auv_print(@K, au::unit_label(au::common_unit(%s * au::mag<6>(), %s * au::mag<10>())));" % (mk0, mk0))
        add("auv_print(@K, au::unit_label(au::common_point_unit(au::%s{} * au::mag<6>(), au::%s{} * au::mag<10>())));" % (us[0], us[0]))    # point-unit slots take units, not quantity makers
    if c["io"]:
        add("std::ostringstream os; os << (au::mag<3>() / au::mag<4>()) << ' ' << au::mag<12>() << ' ' << au::ZERO; auv_print(@K, os.str().c_str());")
    # magnitude evaluation and classification (compile-time numerics must agree across compilers and standards)
    add("auv_print(@K, au::get_value<int>(au::mag<12>()));")
    add("auv_print(@K, static_cast<long long>(au::ZERO == au::ZERO));")
    add("auv_print(@K, au::get_value<double>(au::root<2>(au::mag<2>())) * static_cast<double>(a0));")
    add("auv_print(@K, au::get_value<float>(au::root<3>(au::mag<10>())) * static_cast<float>(a0));")
    add("auv_print(@K, au::get_value<double>(au::Magnitude<au::Pi>{} / au::mag<180>()) * static_cast<double>(a0));")
    add("auv_print(@K, au::get_value<long double>(au::pow<3>(au::root<2>(au::mag<7>()))) * static_cast<long double>(a0));")
    add("auv_print(@K, au::representable_in<int>(au::pow<40>(au::mag<2>())));")
    add("auv_print(@K, au::is_rational(au::root<2>(au::mag<9>())));")
    add("auv_print(@K, au::get_value<std::uint64_t>(au::mag<1000>() * au::mag<1024>()) + static_cast<std::uint64_t>(a0));")
    return out


def program(c, f5_known):
    incl_multi = '#include "au/au.hh"\n' + ("" if not c["io"] else '#include "au/io.hh"\n') + "".join('#include "au/units/%s.hh"\n' % HEADER_OF[n] for n in c["units"]) + "".join('#include "au/constants/%s.hh"\n' % cn.lower() for cn in c["constants"])
    src = "#ifdef AUV_SINGLE\n#include \"au_single.hh\"\n#ifdef AUV_TWICE\n#include \"au_single.hh\"\n#endif\n#else\n" + incl_multi + "#endif\n"
    src += "#include <sstream>\n#include <type_traits>\n" + HELPERS
    src += "int auv_other_tu();\nint main(int argc, char **argv) {\n  if (argc < 4) return 2;\n  const long long a0 = auv_arg(argv, 1), a1 = auv_arg(argv, 2), a2 = auv_arg(argv, 3); (void)a0; (void)a1; (void)a2;\n"
    src += "\n".join(statements(c, f5_known))
    src += "\n#ifdef AUV_TWO_TUS\n  std::printf(\"other: %d\\n\", auv_other_tu());\n#endif\n  return 0;\n}\n"
    return src


OTHER_TU = '#include "au_single.hh"\nint auv_other_tu() { return static_cast<int>(sizeof(au::Quantity<au::UnitProductT<>, int>)) + au::get_value<int>(au::mag<5>()); }\n'


def run(ctx):
    ctx.cov["rule"] = ("(a) random subsets of the 57 unit headers and 9 constant headers x {io, noio} drawn by Hypothesis (sets biased to 0, 1, few, many, all): tools/bin/make-single-file is run "
                       "from the working tree; the single file must contain every code line of the independently computed transitive include closure and no project include, must compile with NO Au include path, when included twice in one TU, and in two TUs linked together; a generated API-surface "
                       "program for the subset (round trips, + - % unary-, comparisons, scalar ops, += , prefixes, conversions and checkers, rounding, sqrt, products/quotients, ZERO, "
                       "constants, labels and streaming when io; reps incl. int8/uint8/int16/uint16; inputs from argv) built against the single file prints exactly what it prints "
                       "when built against the multi-header tree; (b) the same program is built under all six compiler/standard configurations: accepted alike, identical output "
                       "(on disagreement each statement is isolated); (c) every non-test header under au/code/au compiles on its own, every X_fwd.hh followed by X.hh compiles, and a "
                       "function declared with only fwd headers links against its definition compiled with the full headers. Non-trivial: subset with >=2 units or a constant; "
                       "statements with sub-int reps or math functions; distinct by (subset, io, reps, values) / header.")
    ctx.assumptions += ["only g++ 12 / clang++ 14 with libstdc++ are available; only IEEE-exact operations and integers are printed for cross-compiler comparison"]
    quick = ctx.quick()
    f5_known = ctx.is_known("F5")
    if f5_known:
        src = '#include "au/au.hh"\n#include "au/units/meters.hh"\nint main(int, char **argv) { auto q = -au::meters(static_cast<std::int8_t>(argv[0][0])); return q.in(au::meters) == 0; }\n'
        p = ctx.write("f5/repro.cc", src)
        rg = core.compile_one(("g++", "c++14"), p, syntax_only=True)
        rc_ = core.compile_one(("clang++", "c++14"), p, syntax_only=True)
        if rg.ok != rc_.ok:
            ctx.known_hit("F5", F5_TEXT)
    counter = {"n": 0}
    repo = core.REPO

    def judge(cases):
        base = counter["n"]; counter["n"] += len(cases)

        def one(kc):
            k, c = kc
            d = ctx.path("sf/c%d/x" % (base + k)); d = os.path.dirname(d)
            args = ["/usr/bin/python3", os.path.join(repo, "tools/bin/make-single-file"), "--units"] + [HEADER_OF[n] for n in c["units"]] + ["--constants"] + c["constants"] + ([] if c["io"] else ["--noio"]) + ["--version-id", "verif"]
            rc, out, err, secs, to = core.run_cmd(args, cwd=repo, timeout=300)
            n_eval = 0
            if rc != 0:
                return ("tool", "make-single-file failed rc=%d: %s" % (rc, err[-300:]), None, None, 0)
            os.makedirs(os.path.join(d, "inc"), exist_ok=True)
            with open(os.path.join(d, "inc", "au_single.hh"), "w") as f:
                f.write(out)
            why = check_single_structure(c, out)
            if why:
                return ("structure", why, None, None, 1)
            src = program(c, f5_known)
            p = os.path.join(d, "prog.cc")
            open(p, "w").write(src)
            open(os.path.join(d, "other.cc"), "w").write(OTHER_TU)
            argv = [str(v) for v in c["vals"]]
            cfgs = core.CONFIGS
            ref = None
            single_cfg = cfgs[(ctx.seed + base + k) % 6]
            results = {}
            for cfg in cfgs:
                exe = os.path.join(d, "m_%s_%s.exe" % (cfg[0][0], cfg[1][-2:]))
                cr = core.compile_one(cfg, p, exe, flags=["-O0"], timeout=900)   # -O0: a missing definition of an odr-used object must not be optimised away
                n_eval += 1
                if cr.resource_limited:
                    results[cfg] = ("inconclusive", None); continue
                if not cr.ok:
                    results[cfg] = ("rejected", cr.first_error()); continue
                rc2, o2, e2, s2, to2 = core.run_cmd([exe] + argv, timeout=60)
                results[cfg] = ("ok", o2 if rc2 == 0 else "rc=%d %s" % (rc2, (o2 + e2)[-200:]))
            verdicts = set(v[0] for v in results.values() if v[0] != "inconclusive")
            if len(verdicts) > 1:
                rej = [(core.cfg_name(cf), v[1]) for cf, v in results.items() if v[0] == "rejected"]
                acc = [core.cfg_name(cf) for cf, v in results.items() if v[0] == "ok"]
                return ("differential", "program accepted by %s but rejected by %s: %s" % (acc, [r[0] for r in rej], rej[0][1]), src, [cf for cf, v in results.items() if v[0] == "rejected"][0], n_eval)
            if verdicts == {"rejected"}:
                cfg0 = cfgs[0]
                if core.HARNESS_BUG_RE.search(results[cfg0][1] or ""):
                    raise RuntimeError("C20 harness bug: %s\n%s" % (results[cfg0][1], src[-1500:]))
                return ("rejected", "API-surface program rejected everywhere: %s" % results[cfg0][1], src, cfg0, n_eval)
            outs = set(v[1] for v in results.values() if v[0] == "ok")
            if len(outs) > 1:
                a, b = list(outs)[:2]
                diff = [(x, y) for x, y in zip(a.splitlines(), b.splitlines()) if x != y][:2]
                return ("output", "outputs differ between configurations: %s" % diff, src, cfgs[0], n_eval)
            ref = list(outs)[0] if outs else None
            # single-file builds: no Au include path at all
            exe_s = os.path.join(d, "single.exe")
            cmd = [single_cfg[0], "-std=" + single_cfg[1], "-O0", "-DAUV_SINGLE", "-DAUV_TWICE", "-DAUV_TWO_TUS", "-I" + os.path.join(d, "inc"), p, os.path.join(d, "other.cc"), "-o", exe_s]
            rc3, o3, e3, s3, to3 = core.run_cmd(cmd, timeout=900)
            n_eval += 1
            if rc3 != 0:
                if core.RESOURCE_RE.search(e3):
                    return ("inconclusive", "", None, None, n_eval)
                first = [ln for ln in e3.splitlines() if "error" in ln or "multiple definition" in ln or "undefined reference" in ln][:1]
                return ("single", "single-file header (included twice, two TUs, no Au include path) fails to build with %s: %s" % (core.cfg_name(single_cfg), first[0][:300] if first else e3[-300:]), src, single_cfg, n_eval)
            rc4, o4, e4, s4, to4 = core.run_cmd([exe_s] + argv, timeout=60)
            o4m = "\n".join(ln for ln in o4.splitlines() if not ln.startswith("other: ")) + ("\n" if o4 else "")
            if ref is not None and o4m != ref:
                diff = [(x, y) for x, y in zip(o4m.splitlines(), ref.splitlines()) if x != y][:2]
                return ("single_output", "program built against the single file prints %s (single, multi-header)" % diff, src, single_cfg, n_eval)
            return (None, "", None, None, n_eval + len(ref.splitlines()) if ref else n_eval)
        res = core.pmap(one, list(enumerate(cases)))
        out = [None] * len(cases)
        for k, (kind, msg, src, cfg, n_eval) in enumerate(res):
            c = cases[k]
            ctx.count(max(1, n_eval)); ctx.bump("subset_size_%s" % ("0" if not c["units"] else "1" if len(c["units"]) == 1 else "2-6" if len(c["units"]) <= 6 else "10+"))
            ctx.bump("io" if c["io"] else "noio")
            if kind is None:
                if len(c["units"]) >= 2 or c["constants"]:
                    ctx.nontrivial(c)
            elif kind == "inconclusive":
                ctx.inconclusive += 1
            else:
                d = os.path.dirname(ctx.path("sf/c%d/x" % (base + k)))
                if kind == "structure":
                    rep = {"mode": "pyjudge", "judge": "auverif.props.c20:replay_structure", "src": "// structural comparison of the generated single file", "cfg": list(core.CONFIGS[0]), "params": {"case": c}, "no_build": True}
                elif kind in ("single", "single_output", "tool"):
                    # replay regenerates the single file: a small driver script is not expressible as one TU, so the replay is the multi-step command recorded here
                    rep = {"mode": "pyjudge", "judge": "auverif.props.c20:replay_single", "src": src or "int main(){}", "cfg": list(cfg or core.CONFIGS[0]), "params": {"case": c, "f5_known": f5_known}, "no_build": True}
                elif kind in ("differential", "rejected"):
                    rep = {"mode": "build", "expect": "ok", "src": src, "cfg": list(cfg), "flags": ["-O0"]}
                else:
                    rep = {"mode": "pyjudge", "judge": "auverif.props.c20:replay_outputs", "src": src, "cfg": list(cfg), "params": {"case": c}, "no_build": True}
                out[k] = {"what": "C20 %s: %s  subset=%s" % (kind, msg, json.dumps({"units": c["units"][:6], "constants": c["constants"], "io": c["io"]})), "replay": rep}
        return out

    # (c) headers on their own
    hdrs = sorted(h for h in glob.glob(os.path.join(core.INC, "au", "**", "*.hh"), recursive=True) if "/test/" not in h and not h.endswith("testing.hh") and not h.endswith("_test_lib.hh"))
    items, meta = [], []
    for j, h in enumerate(hdrs):
        rel = os.path.relpath(h, core.INC)
        cfgs = core.CONFIGS if not quick else [core.CONFIGS[(ctx.seed + j) % 6]]
        for cfg in cfgs:
            items.append(('#include "%s"\n' % rel, "", cfg)); meta.append(("alone", rel))
        if rel.endswith("_fwd.hh") and os.path.exists(h.replace("_fwd.hh", ".hh")):
            items.append(('#include "%s"\n#include "%s"\n' % (rel, rel.replace("_fwd.hh", ".hh")), "", core.CONFIGS[(ctx.seed + j + 3) % 6])); meta.append(("fwd_then_full", rel))
            items.append(('#include "%s"\n#include "%s"\n' % (rel.replace("_fwd.hh", ".hh"), rel), "", core.CONFIGS[(ctx.seed + j + 1) % 6])); meta.append(("full_then_fwd", rel))
    vs = progs.judge_positive(ctx, items, group=1, tag="hdr")
    for (kind, rel), v in zip(meta, vs):
        ctx.count(1); ctx.bump("header_" + kind)
        if v.ok:
            ctx.nontrivial(("hdr", kind, rel))
        elif v.inconclusive:
            ctx.inconclusive += 1
        else:
            ctx.fail("C20: header %s (%s) does not compile on its own [%s]: %s" % (rel, kind, core.cfg_name(v.cfg), v.cr.first_error()), {"mode": "syntax", "expect": "ok", "src": v.src, "cfg": list(v.cfg)})
    # fwd declarations must match definitions (link test)
    fwd_units = [n for n in ("Meters", "Seconds", "Celsius", "Newtons", "Hertz", "Bytes", "Percent", "USGallons", "Fahrenheit", "Kelvins")]
    a_src = '#include "au/fwd.hh"\n' + "".join('#include "au/units/%s_fwd.hh"\n' % HEADER_OF[n] for n in fwd_units)
    b_src = '#include "au/au.hh"\n' + "".join('#include "au/units/%s.hh"\n' % HEADER_OF[n] for n in fwd_units)
    for j, n in enumerate(fwd_units):
        a_src += "double auv_g%d(const au::QuantityD<au::%s> &q, const au::QuantityPointI<au::Kilo<au::%s>> *p);\ndouble auv_h%d(const au::QuantityD<au::%s> &q) { return auv_g%d(q, nullptr); }\n" % (j, n, n, j, n, j)
        b_src += "double auv_h%d(const au::QuantityD<au::%s> &q);\ndouble auv_g%d(const au::QuantityD<au::%s> &q, const au::QuantityPointI<au::Kilo<au::%s>> *) { return q.in(au::%s{}); }\n" % (j, n, j, n, n, n)
    b_src += "int main() { double s = 0;\n" + "".join("  s += auv_h%d(au::make_quantity<au::%s>(%d.0));\n" % (j, n, j + 1) for j, n in enumerate(fwd_units)) + "  return s == %d.0 ? 0 : 1; }\n" % sum(range(1, len(fwd_units) + 1))
    pa, pb = ctx.write("fwd/a.cc", a_src), ctx.write("fwd/b.cc", b_src)
    for cfg in (core.CONFIGS if not quick else [core.CONFIGS[ctx.seed % 6], core.CONFIGS[(ctx.seed + 3) % 6]]):
        exe = ctx.path("fwd/t_%s%s.exe" % (cfg[0][0], cfg[1][-2:]))
        cmd = [cfg[0], "-std=" + cfg[1], "-I" + core.INC, pa, pb, "-o", exe]
        rc, o, e, s, to = core.run_cmd(cmd, timeout=600)
        ctx.count(len(fwd_units))
        if rc != 0 or core.run_cmd([exe])[0] != 0:
            ctx.fail("C20: forward declarations do not match the definitions (link/run of fwd test failed) [%s]: %s" % (core.cfg_name(cfg), (e or "wrong result")[-300:]),
                     {"mode": "pyjudge", "judge": "auverif.props.c20:replay_fwd", "src": a_src, "cfg": list(cfg), "params": {"a": a_src, "b": b_src}, "no_build": True})
        else:
            ctx.nontrivial(("fwdlink", core.cfg_name(cfg)))
    # every public header in two translation units linked together (ODR: no non-inline definition may live in a header); always under
    # C++14 (where static constexpr data members are not implicitly inline) and one rotating later standard
    all_inc = "".join('#include "%s"\n' % os.path.relpath(h, core.INC) for h in hdrs if not h.endswith("_fwd.hh"))
    tu_a = all_inc + "int auv_b();\nint main() { return auv_b() == 57 ? 0 : 1; }\n"
    tu_b = all_inc + "int auv_b() { return 57; }\n"
    pa2, pb2 = ctx.write("odr/a.cc", tu_a), ctx.write("odr/b.cc", tu_b)
    odr_cfgs = [("g++", "c++14"), ("clang++", "c++14"), core.CONFIGS[[1, 2, 4, 5][ctx.seed % 4]]] if quick else core.CONFIGS

    def odr(cfg):
        exe = ctx.path("odr/t_%s%s.exe" % (cfg[0][0], cfg[1][-2:]))
        return cfg, core.run_cmd([cfg[0], "-std=" + cfg[1], "-I" + core.INC, pa2, pb2, "-o", exe], timeout=900)
    for cfg, (rc, o, e, s_, to) in core.pmap(odr, odr_cfgs):
        ctx.count(len(hdrs))
        if to or core.RESOURCE_RE.search(e):
            ctx.inconclusive += 1
        elif rc != 0:
            first = [ln for ln in e.splitlines() if "multiple definition" in ln or "error" in ln][:1]
            ctx.fail("C20: all public headers included by two translation units do not link under %s: %s" % (core.cfg_name(cfg), first[0][:300] if first else e[-300:]),
                     {"mode": "pyjudge", "judge": "auverif.props.c20:replay_odr", "src": tu_a, "cfg": list(cfg), "params": {"a": tu_a, "b": tu_b, "cfg": list(cfg)}, "no_build": True})
        else:
            ctx.nontrivial(("odr", core.cfg_name(cfg)))
    # (a)+(b) subsets
    grid = [{"units": [], "constants": [], "io": True, "reps": ["int32_t", "double", "int8_t"], "vals": [7, 3, 2]},
            {"units": ["Meters", "Seconds", "Feet", "Celsius"], "constants": ["SPEED_OF_LIGHT"], "io": True, "reps": ["int8_t", "uint16_t", "double"], "vals": [17, 5, 3]},
            {"units": ["Hertz", "Bytes", "Percent"], "constants": ["PLANCK_CONSTANT", "STANDARD_GRAVITY"], "io": False, "reps": ["int16_t", "float", "uint8_t"], "vals": [9, 4, 2]},
            {"units": sorted(TABLE), "constants": CONSTANTS, "io": True, "reps": ["uint64_t", "int32_t", "double"], "vals": [12, 5, 7]}]
    if quick:
        grid = grid[:3]
    ctx.cov["grid_cases"] = len(grid)
    for c, v in zip(grid, judge(grid)):
        if v is not None:
            ctx.fail(v["what"], v["replay"], detail={"case": c})
    cache = hyp.run_batches(ctx, subset_case(), judge, 2 if quick else 20, 8, label="c20", shrink_budget_s=120)
    judged = [json.loads(k) for k, (s, v) in cache.items() if s == "judged"]
    ctx.cov["random_cases"] = len(judged)
    ctx.cov["headers_checked"] = len(hdrs)
    for c in judged[:3]:
        ctx.sample({"units": c["units"][:8], "n_units": len(c["units"]), "constants": c["constants"], "io": c["io"], "reps": c["reps"], "vals": c["vals"]})


# ---- independent flattening oracle for the single-file header -----------------------------------------

def _au_tokens(pre_text, want):
    """token multiset of the preprocessed lines that originate from files selected by want(path)"""
    import collections, re
    cur, toks = "", collections.Counter()
    for ln in pre_text.splitlines():
        m = re.match(r'# \d+ "([^"]*)"', ln)
        if m:
            cur = m.group(1)
            continue
        if ln.startswith("#pragma"):
            continue
        if want(cur):
            toks.update(re.findall(r"[A-Za-z_]\w*|\d[\w.']*|\S", ln))
    return toks


def check_single_structure(case, single_text, workdir=None):
    """independent of how the tool formats its output: the preprocessed token multiset contributed by the single file must equal the one
    contributed by the project headers when the same selection is included from the multi-header tree (a dropped or duplicated
    declaration changes it; comments, blank lines, include order and formatting do not)"""
    import re, tempfile
    d = workdir or tempfile.mkdtemp(prefix="c20struct", dir=os.path.join(core.VERIF, "build"))
    os.makedirs(os.path.join(d, "sinc"), exist_ok=True)
    open(os.path.join(d, "sinc", "au_single.hh"), "w").write(single_text)
    roots = ["au/au.hh"] + ["au/units/%s.hh" % HEADER_OF[n] for n in case["units"]] + ["au/constants/%s.hh" % c.lower() for c in case["constants"]] + (["au/io.hh"] if case["io"] else [])
    open(os.path.join(d, "multi.cc"), "w").write("".join('#include "%s"\n' % r for r in roots))
    open(os.path.join(d, "single.cc"), "w").write('#include "au_single.hh"\n')
    r1 = core.run_cmd(["g++", "-std=c++14", "-E", "-I" + core.INC, os.path.join(d, "multi.cc")], timeout=300)
    r2 = core.run_cmd(["g++", "-std=c++14", "-E", "-I" + os.path.join(d, "sinc"), os.path.join(d, "single.cc")], timeout=300)
    if r1[0] != 0:
        return None   # multi-header tree itself does not preprocess: judged elsewhere
    if r2[0] != 0:
        return "single-file header does not preprocess on its own: %s" % r2[2][-300:]
    inc = os.path.realpath(core.INC)
    tm = _au_tokens(r1[1], lambda f: os.path.realpath(f).startswith(inc + os.sep))
    ts = _au_tokens(r2[1], lambda f: f.endswith("au_single.hh"))
    if tm != ts:
        missing = [(t, n - ts[t]) for t, n in tm.items() if ts[t] < n][:6]
        extra = [(t, n - tm[t]) for t, n in ts.items() if tm[t] < n][:6]
        return "single-file header is not the multi-header tree flattened: tokens missing %s, extra %s" % (missing, extra)
    if re.search(r'^\s*#\s*include\s*"au/', single_text, re.M):
        return "single-file header still includes a project file"
    return None


def replay_structure(params, rc, out, err):
    import tempfile
    d = tempfile.mkdtemp(prefix="c20replay", dir=os.path.join(core.VERIF, "build"))
    inc, msg = _build_single(params["case"], d)
    if inc is None:
        return True, msg
    why = check_single_structure(params["case"], open(os.path.join(inc, "au_single.hh")).read())
    return why is not None, why or "single file contains every code line of its transitive closure"


# ---- stand-alone replays (multi-step reproductions driven from the replay file) ---------------------

def _build_single(case, workdir):
    args = ["/usr/bin/python3", os.path.join(core.REPO, "tools/bin/make-single-file"), "--units"] + [HEADER_OF[n] for n in case["units"]] + ["--constants"] + case["constants"] + ([] if case["io"] else ["--noio"]) + ["--version-id", "verif"]
    rc, out, err, secs, to = core.run_cmd(args, cwd=core.REPO, timeout=300)
    if rc != 0:
        return None, "make-single-file failed: " + err[-200:]
    os.makedirs(os.path.join(workdir, "inc"), exist_ok=True)
    open(os.path.join(workdir, "inc", "au_single.hh"), "w").write(out)
    return os.path.join(workdir, "inc"), ""


def replay_single(params, rc, out, err):
    import tempfile
    d = tempfile.mkdtemp(prefix="c20replay", dir=os.path.join(core.VERIF, "build"))
    c = params["case"]
    inc, msg = _build_single(c, d)
    if inc is None:
        return True, msg
    src = program(c, params.get("f5_known", False))
    p = os.path.join(d, "prog.cc"); open(p, "w").write(src); open(os.path.join(d, "other.cc"), "w").write(OTHER_TU)
    argv = [str(v) for v in c["vals"]]
    cfg = core.CONFIGS[0]
    r1 = core.run_cmd([cfg[0], "-std=" + cfg[1], "-O0", "-DAUV_SINGLE", "-DAUV_TWICE", "-DAUV_TWO_TUS", "-I" + inc, p, os.path.join(d, "other.cc"), "-o", os.path.join(d, "s.exe")], timeout=900)
    if r1[0] != 0:
        return True, "single-file build fails: " + r1[2][-300:]
    cr = core.compile_one(cfg, p, os.path.join(d, "m.exe"), flags=["-O0"])
    if not cr.ok:
        return None, "multi-header build fails"
    o1 = core.run_cmd([os.path.join(d, "s.exe")] + argv)[1]
    o2 = core.run_cmd([os.path.join(d, "m.exe")] + argv)[1]
    o1 = "\n".join(ln for ln in o1.splitlines() if not ln.startswith("other: ")) + "\n"
    return (o1 != o2), "single-file output %s multi-header output" % ("differs from" if o1 != o2 else "equals")


def replay_outputs(params, rc, out, err):
    import tempfile
    d = tempfile.mkdtemp(prefix="c20replay", dir=os.path.join(core.VERIF, "build"))
    c = params["case"]
    src = program(c, False)
    p = os.path.join(d, "prog.cc"); open(p, "w").write(src)
    outs = set()
    for cfg in core.CONFIGS:
        cr = core.compile_one(cfg, p, os.path.join(d, "x.exe"), flags=["-O0"])
        if cr.ok:
            outs.add(core.run_cmd([os.path.join(d, "x.exe")] + [str(v) for v in c["vals"]])[1])
    return len(outs) > 1, "%d distinct outputs across configurations" % len(outs)


def replay_fwd(params, rc, out, err):
    import tempfile
    d = tempfile.mkdtemp(prefix="c20replay", dir=os.path.join(core.VERIF, "build"))
    pa, pb = os.path.join(d, "a.cc"), os.path.join(d, "b.cc")
    open(pa, "w").write(params["a"]); open(pb, "w").write(params["b"])
    r = core.run_cmd(["g++", "-std=c++14", "-I" + core.INC, pa, pb, "-o", os.path.join(d, "t.exe")], timeout=600)
    if r[0] != 0:
        return True, "link failed: " + r[2][-300:]
    return core.run_cmd([os.path.join(d, "t.exe")])[0] != 0, "fwd link test"


def replay_odr(params, rc, out, err):
    import tempfile
    d = tempfile.mkdtemp(prefix="c20replay", dir=os.path.join(core.VERIF, "build"))
    pa, pb = os.path.join(d, "a.cc"), os.path.join(d, "b.cc")
    open(pa, "w").write(params["a"]); open(pb, "w").write(params["b"])
    cfg = params["cfg"]
    r = core.run_cmd([cfg[0], "-std=" + cfg[1], "-I" + core.INC, pa, pb, "-o", os.path.join(d, "t.exe")], timeout=900)
    return r[0] != 0, "two-TU link of all headers: rc=%d %s" % (r[0], r[2][-200:])
