"""C16: constants convert exactly or not at all; constant algebra changes only the unit (program level)."""
import copy
import json
from fractions import Fraction as F

import mpmath
from hypothesis import strategies as st

from .. import core, hyp, model, progs, reps, units
from ..model import TABLE, U
from . import c11

CONST_HEADERS = ["avogadro_constant", "boltzmann_constant", "cesium_hyperfine_transition_frequency", "elementary_charge", "luminous_efficacy_540_terahertz",
                 "planck_constant", "reduced_planck_constant", "speed_of_light", "standard_gravity"]
PRELUDE = model.ALL_INCLUDES + "\n" + "\n".join('#include "au/constants/%s.hh"' % h for h in CONST_HEADERS) + "\n#include <cstdint>\n#include <type_traits>\nusing au::pow; using au::root;\n"


def L(n): return {"k": "leaf", "n": n}
def P(p, n): return {"k": "pre", "p": p, "n": n}
def mul(a, b): return {"k": "mul", "a": a, "b": b}
def div(a, b): return {"k": "div", "a": a, "b": b}
def pw(a, n, d=1): return {"k": "pow", "a": a, "n": n, "d": d}


def _tenpow(e):
    return model.mpow(model.mag_of(10), e)


# physical definitions (2019 SI exact values): name -> (unit tree of the SI coherent unit, magnitude relative to it)
CONSTS = {
    "AVOGADRO_CONSTANT": (pw(L("Moles"), -1), model.mmul(model.mag_of(602214076), _tenpow(15))),
    "BOLTZMANN_CONSTANT": (div(L("Joules"), L("Kelvins")), model.mmul(model.mag_of(1380649), _tenpow(-29))),
    "CESIUM_HYPERFINE_TRANSITION_FREQUENCY": (L("Hertz"), model.mag_of(9192631770)),
    "ELEMENTARY_CHARGE": (L("Coulombs"), model.mmul(model.mag_of(1602176634), _tenpow(-28))),
    "LUMINOUS_EFFICACY_540_TERAHERTZ": (div(L("Lumens"), L("Watts")), model.mag_of(683)),
    "PLANCK_CONSTANT": (mul(L("Joules"), L("Seconds")), model.mmul(model.mag_of(662607015), _tenpow(-42))),
    "REDUCED_PLANCK_CONSTANT": (mul(L("Joules"), L("Seconds")), model.mmul(model.mmul(model.mag_of(662607015, 2), _tenpow(-42)), {"pi": F(-1)})),
    "SPEED_OF_LIGHT": (div(L("Meters"), L("Seconds")), model.mag_of(299792458)),
    "STANDARD_GRAVITY": (div(L("Meters"), pw(L("Seconds"), 2)), model.mag_of(980665, 100000)),
}
SCALES = [(1, 1), (1000, 1), (1, 1000), (127, 5000), (2 ** 31 - 1, 1), (2 ** 31, 1), (2 ** 32, 1), (2 ** 63 - 25, 1), (255, 1), (256, 1), (32767, 1), (32768, 1), (65536, 1), (3, 2), (10 ** 18, 1), (1, 10 ** 18), (7, 1)]
PREF = ["Kilo", "Milli", "Mega", "Micro", "Giga", "Nano", "Quetta", "Quecto", "Yobi", "Kibi"]


@st.composite
def case(draw):
    kind = draw(st.sampled_from(["lib", "lib", "gen", "gen", "algebra", "limit", "limit"]))
    c = {"kind": kind, "T": draw(st.sampled_from(reps.ALL_REPS))}
    if kind == "limit":
        # constant whose ratio to the target unit is constructed to land next to a limit of T (see c11.near_limit)
        c.update({"kind": "gen", "t": draw(units.tree(max_leaves=2, allow_frac=False)), "cmag": draw(c11.near_limit(c["T"])), "cscale": [1, 1], "cpi": 0, "bigprime": None,
                  "tscale": list(draw(st.sampled_from([(1, 1), (1, 1), (3, 1), (1, 7), (1000, 1)])))})
        return c
    if kind == "lib":
        c["const"] = draw(st.sampled_from(sorted(CONSTS)))
        c["tscale"] = list(draw(st.sampled_from(SCALES + [(10 ** 15, 1), (1, 10 ** 15), (10 ** 29, 1), (10 ** 42, 1), (1, 10 ** 28)])))
        c["tpre"] = draw(st.sampled_from([None, None] + PREF))
    elif kind == "gen":
        c["t"] = draw(units.tree(max_leaves=2, allow_frac=False))
        c["cscale"] = list(draw(st.sampled_from(SCALES)))
        c["cpi"] = draw(st.sampled_from([0, 0, 0, 1, -1]))
        c["bigprime"] = draw(st.sampled_from([None, None, 2305843009213693951, 18446744073709551557, 9223372036854775837, 13835058055282163729]))
        c["tscale"] = list(draw(st.sampled_from(SCALES)))
        # a second huge prime on the TARGET side: the ratio then holds two distinct primes that are equal as doubles (2^64-59 vs 2^64-95, 2^63+29 vs 2^63+...)
        c["tbig"] = draw(st.sampled_from([None, None, None, 18446744073709551521, 18446744073709551557, 9223372036854775837]))
    else:
        c["const"] = draw(st.sampled_from(sorted(CONSTS)))
        c["x"] = draw(st.sampled_from([1, 2, 3, 7, 100, 127]))
        c["unit"] = draw(st.sampled_from(["Meters", "Seconds", "Hertz", "Unos", "Newtons"]))
    return c


def setup(c):
    """-> (decls, const_expr, target_unit_expr, rho magnitude) for lib/gen"""
    if c["kind"] == "lib":
        tree, cm = CONSTS[c["const"]]
        base = units.render_unit(tree)
        tm = model.mag_of(c["tscale"][0], c["tscale"][1])
        tgt = "(%s * %s)" % (base, units.mag_cxx(c["tscale"][0], c["tscale"][1]))
        if c["tpre"]:
            tgt = "au::%s<decltype(%s)>{}" % (c["tpre"], tgt)
            tm = model.mmul(tm, model.prefix_mag(c["tpre"]))
        rho = model.mmul(cm, tm, -1)
        return "", "au::" + c["const"], tgt, rho
    t = copy.deepcopy(c["t"])
    units.fix_twins([t])
    base = units.render_unit(t)
    cm = model.mag_of(c["cscale"][0], c["cscale"][1])
    cexpr = units.mag_cxx(c["cscale"][0], c["cscale"][1], (c["cpi"], 1))
    if c["cpi"]:
        cm = model.mmul(cm, {"pi": F(c["cpi"])})
    if c.get("cmag") is not None:
        # the target scale is folded into the constant so that the RATIO is the constructed magnitude
        cm = model.mmul(c11.decode(c["cmag"]), model.mag_of(c["tscale"][0], c["tscale"][1]))
        cexpr = "(%s * %s)" % (c11.route_expr(c11.decode(c["cmag"])), units.mag_cxx(c["tscale"][0], c["tscale"][1]))
    if c["bigprime"]:
        cm = model.mmul(cm, {c["bigprime"]: F(1)})
        cexpr = "(%s * au::Magnitude<au::Prime<%dull>>{})" % (cexpr, c["bigprime"])
    tm = model.mag_of(c["tscale"][0], c["tscale"][1])
    texpr = units.mag_cxx(c["tscale"][0], c["tscale"][1])
    if c.get("tbig"):
        tm = model.mmul(tm, {c["tbig"]: F(1)})
        texpr = "(%s * au::Magnitude<au::Prime<%dull>>{})" % (texpr, c["tbig"])
    rho = model.mmul(cm, tm, -1)
    return "", "au::make_constant(%s * %s)" % (base, cexpr), "(%s * %s)" % (base, texpr), rho


def value_case(c):
    decls, C, u, rho = setup(c)
    T = c["T"]
    pos = ["constexpr auto K = %s; constexpr auto u = %s; using Uu = std::remove_const_t<decltype(u)>;" % (C, u)]
    neg = None
    nt = False
    lv = c11.log2v(rho) if rho else mpmath.mpf(0)
    if reps.is_int(T):
        iv = c11.int_value(rho)
        ok = iv is not None and iv <= reps.rmax(T)
        pos.append('static_assert(K.can_store_value_in<%s>(u) == %s, "can_store_value_in");' % (T, "true" if ok else "false"))
        if ok:
            pos.append('static_assert(K.in<%s>(u) == static_cast<%s>(%dull), "in<T>");' % (T, T, iv))
            pos.append('static_assert(K.as<%s>(u).in(u) == static_cast<%s>(%dull), "as<T>");' % (T, T, iv))
            pos.append('constexpr au::Quantity<Uu, %s> q = K; static_assert(q.in(u) == static_cast<%s>(%dull), "implicit conversion");' % (T, T, iv))
        else:
            neg = ["constexpr auto v = K.in<%s>(u);" % T, "constexpr auto v = K.as<%s>(u);" % T, "constexpr au::Quantity<Uu, %s> q = K;" % T]
        nt = (iv is None) or abs(lv - reps.BITS[T]) < 2 or (iv is not None and iv != 1)
        return pos, neg, nt
    dig, emax, emin, edenorm = reps.FLT[T]
    if not c11.computable(rho):
        pos.append('static_assert(!K.can_store_value_in<%s>(u) || au::detail::get_value_result<%s>(au::unit_ratio(K, u)).value > 0, "never a silent zero");' % (T, T))
        return pos, None, True
    in_range = (lv >= edenorm + 1) and (lv <= emax - mpmath.mpf(2) ** -19)
    above = lv > emax + mpmath.mpf(2) ** -19
    nt = "pi" in rho or abs(lv - emax) < 2 or abs(lv - edenorm) < 3 or lv != 0
    if in_range:
        v = c11.mval(rho)
        ulps = 6 + sum(abs(e.numerator) for e in rho.values()) * 2.0 ** (dig - 64)
        tol = v * ulps * mpmath.mpf(2) ** (-(dig - 1)) if lv >= emin else mpmath.mpf(2) ** edenorm * 1.01
        lo, hi = c11.ldlit(v - tol), c11.ldlit(v + tol)
        pos.append('static_assert(K.can_store_value_in<%s>(u), "can_store_value_in floating");' % T)
        for expr in ("K.in<%s>(u)" % T, "K.as<%s>(u).in(u)" % T):
            pos.append('static_assert(static_cast<long double>(%s) >= %s && static_cast<long double>(%s) <= %s, "value within tolerance");' % (expr, lo, expr, hi))
        pos.append('constexpr au::Quantity<Uu, %s> q = K; static_assert(static_cast<long double>(q.in(u)) >= %s && static_cast<long double>(q.in(u)) <= %s, "implicit conversion within tolerance");' % (T, lo, hi))
    elif above:
        pos.append('static_assert(!K.can_store_value_in<%s>(u), "beyond max must not be storable");' % T)
        neg = ["constexpr auto v = K.in<%s>(u);" % T, "constexpr au::Quantity<Uu, %s> q = K;" % T]
    elif lv < edenorm - 2:
        pos.append('static_assert(!K.can_store_value_in<%s>(u), "underflowing ratio must not be storable (it would be a silent zero)");' % T)
        neg = ["constexpr auto v = K.as<%s>(u);" % T]
    return pos, neg, nt


def algebra_case(c):
    tree, cm = CONSTS[c["const"]]
    cu = units.evaluate(tree)
    cunit = U(cu.dim, model.mmul(cu.mag, cm))
    K = "au::" + c["const"]
    T = c["T"]
    x = "%s{%d}" % (T, c["x"]) if T != "long double" else "static_cast<long double>(%d)" % c["x"]
    ou = TABLE[c["unit"]]
    b = ["constexpr auto K = %s;" % K]

    def unit_is(expr, u):
        return ['static_assert(std::is_same<au::detail::DimT<typename decltype(%s)::Unit>, %s>::value, "unit dimension of %s");' % (expr, model.spell_dim(u.dim), expr.replace('"', "'")),
                'static_assert(std::is_same<au::detail::MagT<typename decltype(%s)::Unit>, %s>::value, "unit magnitude of %s");' % (expr, model.spell_mag(u.mag), expr.replace('"', "'"))]
    inv = U(model.mpow(cunit.dim, -1), model.mpow(cunit.mag, -1))
    b += unit_is("%s * K" % x, cunit) + ['static_assert((%s * K).in(typename decltype(%s * K)::Unit{}) == %s, "x*C keeps the number");' % (x, x, x)]
    b += unit_is("K * %s" % x, cunit) + ['static_assert((K * %s).in(typename decltype(K * %s)::Unit{}) == %s, "C*x keeps the number");' % (x, x, x)]
    b += unit_is("%s / K" % x, inv) + ['static_assert((%s / K).in(typename decltype(%s / K)::Unit{}) == %s, "x/C keeps the number");' % (x, x, x)]
    q = "au::make_quantity<au::%s>(%s)" % (c["unit"], x)
    b += unit_is("%s * K" % q, ou * cunit) + ['static_assert((%s * K).in(typename decltype(%s * K)::Unit{}) == %s, "q*C keeps the number");' % (q, q, x)]
    b += unit_is("K * %s" % q, cunit * ou) + ['static_assert((K * %s).in(typename decltype(K * %s)::Unit{}) == %s, "C*q keeps the number");' % (q, q, x)]
    b += unit_is("%s / K" % q, ou / cunit) + ['static_assert((%s / K).in(typename decltype(%s / K)::Unit{}) == %s, "q/C keeps the number");' % (q, q, x)]
    # C * magnitude, C / magnitude, C * C2, C * maker, C * unit-wrapper keep being constants/makers of the product unit
    b.append('static_assert(std::is_same<au::detail::MagT<decltype(au::associated_unit(K * au::mag<7>()))>, %s>::value, "C * mag");' % model.spell_mag(model.mmul(cunit.mag, model.mag_of(7))))
    b.append('static_assert(std::is_same<au::detail::MagT<decltype(au::associated_unit(K / au::mag<7>()))>, %s>::value, "C / mag");' % model.spell_mag(model.mmul(cunit.mag, model.mag_of(1, 7))))
    b.append('static_assert(std::is_same<au::detail::DimT<decltype(au::associated_unit(K * K))>, %s>::value && std::is_same<au::detail::MagT<decltype(au::associated_unit(K * K))>, %s>::value, "C * C");'
             % (model.spell_dim(model.mpow(cunit.dim, 2)), model.spell_mag(model.mpow(cunit.mag, 2))))
    b.append('static_assert(std::is_same<au::detail::DimT<decltype(au::associated_unit(K / K))>, au::Dimension<>>::value && std::is_same<au::detail::MagT<decltype(au::associated_unit(K / K))>, au::Magnitude<>>::value, "C / C");')
    mk = "au::" + model.SPELL[c["unit"]][1]
    pu = ou * cunit
    b.append('static_assert(std::is_same<au::detail::DimT<decltype(au::associated_unit(K * %s))>, %s>::value && std::is_same<au::detail::MagT<decltype(au::associated_unit(%s * K))>, %s>::value, "C * maker");'
             % (mk, model.spell_dim((cunit * ou).dim), mk, model.spell_mag(pu.mag)))
    b.append('static_assert((K * %s)(%s).in(K * %s) == %s, "maker made from C * maker stores the number");' % (mk, x, mk, x))
    if reps.is_int(T):
        negs = ["constexpr auto v = K / %s;" % x, "constexpr auto v = K / %s;" % q]
    else:
        b += unit_is("K / %s" % x, cunit) + ['static_assert((K / %s).in(typename decltype(K / %s)::Unit{}) == %s{1} / %s, "C/x stores 1/x");' % (x, x, "static_cast<long double>" if T == "long double" else T, x) if T != "long double" else 'static_assert((K / %s).in(typename decltype(K / %s)::Unit{}) == 1.0L / %s, "C/x stores 1/x");' % (x, x, x)]
        negs = None
    return b, negs, True


def run(ctx):
    ctx.cov["rule"] = ("(value) constant C = one of the library's 9 constants (model: 2019 SI exact values) or make_constant of a generated unit scaled by integer/rational/huge-prime/pi "
                       "magnitudes; target unit of the same dimension with scale factors straddling every type's limits (2^8..2^63, 10^+-15..10^+-42, prefixes up to quetta/quecto/yobi); "
                       "T over 11 types: can_store_value_in<T>(u) == (exact ratio is an in-range integer / lies in T's positive finite range, C11 bands) by static_assert that must compile "
                       "either way; when available C.in<T>(u), C.as<T>(u), Quantity<u,T> q = C equal the ratio exactly (integral) or within 6 ulp (floating); when not, each of them must "
                       "fail to compile (negative probes with an int-1 twin); (algebra) x*C, C*x, x/C, q*C, C*q, q/C, C/x (floating), C*mag, C/mag, C*C, C/C, C*maker: stored number "
                       "identical to x (1/x for C/x) and the result unit's spelled Dimension/Magnitude equal the model product; C/int and C/integral-quantity rejected. "
                       "Non-trivial: ratio != 1; distinct by canonical JSON.")
    ctx.assumptions += ["library constants modelled from the 2019 SI exact values, not parsed from the headers", "same floating-point bands as C11"]
    quick = ctx.quick()
    counter = {"n": 0}

    def judge(cases):
        base = counter["n"]; counter["n"] += len(cases)
        preps = []
        for c in cases:
            try:
                preps.append(algebra_case(c) if c["kind"] == "algebra" else value_case(c))
            except Exception as e:
                raise
        items, back = [], []
        for k, (pos, neg, nt) in enumerate(preps):
            cfgs = core.CONFIGS if not quick else [core.CONFIGS[(ctx.seed + base + k) % 6]]
            for cfg in cfgs:
                items.append((PRELUDE, "\n".join(pos), cfg)); back.append(k)
        out = [None] * len(cases)
        for k, v, it in zip(back, progs.judge_positive(ctx, items, group=8, tag="c16"), items):
            c = cases[k]
            ctx.count(len(preps[k][0])); ctx.bump("kind_" + c["kind"])
            if v.ok:
                if preps[k][2]:
                    ctx.nontrivial(c)
            elif v.inconclusive:
                ctx.inconclusive += 1
            elif progs.is_documented_ordering_limitation(v.cr):
                ctx.bump("excluded_documented_limitation_hit")
            elif out[k] is None:
                out[k] = {"what": "C16 %s [%s]: %s" % (json.dumps(c)[:220], core.cfg_name(it[2]), v.cr.first_error()), "replay": {"mode": "syntax", "expect": "ok", "src": v.src, "cfg": list(it[2])}}
        nitems, nback = [], []
        for k, (pos, neg, nt) in enumerate(preps):
            if not neg:
                continue
            for j, stmt in enumerate(neg):
                if quick and (base + k + j + ctx.seed) % 2:
                    continue
                head = pos[0] if cases[k]["kind"] != "algebra" else "constexpr auto K = au::%s;" % cases[k]["const"]
                twin = head + "\nconstexpr auto v = K * 1;"
                nitems.append((PRELUDE, head + "\n" + stmt, twin, core.CONFIGS[(ctx.seed + base + k + j) % 6])); nback.append((k, stmt))
        for (k, stmt), v in zip(nback, progs.judge_negative(ctx, nitems, tag="c16neg")):
            c = cases[k]
            ctx.count(1); ctx.bump("negative_probes")
            if v["status"] == "ok":
                ctx.nontrivial(("neg", c, stmt))
            elif v["status"] == "accepted" and out[k] is None:
                out[k] = {"what": "C16: '%s' compiles although the exact ratio is not representable / the form must be rejected: %s" % (stmt, json.dumps(c)[:200]),
                          "replay": {"mode": "syntax", "expect": "fail", "src": v["bad_src"], "cfg": list(v["cfg"])}}
            elif v["status"] == "inconclusive":
                ctx.inconclusive += 1
            elif v["status"] == "twin_failed":
                if progs.is_documented_ordering_limitation(v["twin"]):
                    ctx.bump("excluded_documented_limitation_hit")
                elif out[k] is None:
                    out[k] = {"what": "C16: the positive twin (C * 1) of a negative probe does not compile: %s" % v["twin"].first_error(),
                              "replay": {"mode": "syntax", "expect": "ok", "src": v["twin_src"], "cfg": list(v["cfg"])}}
        return out

    grid = []
    for cn in sorted(CONSTS):
        for T in (reps.ALL_REPS if not quick else [reps.ALL_REPS[(len(grid) + j * 4 + ctx.seed) % 11] for j in range(3)]):
            grid.append({"kind": "lib", "const": cn, "T": T, "tscale": [1, 1], "tpre": None})
        grid.append({"kind": "algebra", "const": cn, "T": ["int32_t", "double", "float", "int64_t", "uint8_t"][len(grid) % 5], "x": 3, "unit": "Meters"})
    grid.append({"kind": "lib", "const": "PLANCK_CONSTANT", "T": "float", "tscale": [1, 1], "tpre": "Mega"})      # subnormal float ratio 6.6e-40
    grid.append({"kind": "lib", "const": "SPEED_OF_LIGHT", "T": "int32_t", "tscale": [1, 1], "tpre": None})
    grid.append({"kind": "lib", "const": "SPEED_OF_LIGHT", "T": "int32_t", "tscale": [1, 10], "tpre": None})
    grid.append({"kind": "lib", "const": "SPEED_OF_LIGHT", "T": "int16_t", "tscale": [1, 1], "tpre": "Kilo"})
    # ratios holding two DISTINCT huge primes that coincide as doubles (2^64-59 / 2^64-95, and the reverse): not an integer, and not 1
    for j, (pc, pt_) in enumerate([(18446744073709551557, 18446744073709551521), (18446744073709551521, 18446744073709551557), (9223372036854775837, 18446744073709551557)]):
        for T in (["int32_t", "uint64_t", "long double", "double", "int8_t"] if not quick else [["int32_t", "uint64_t", "long double", "double", "int8_t"][(j + ctx.seed) % 5], "long double"]):
            grid.append({"kind": "gen", "T": T, "t": {"k": "leaf", "n": "Meters"}, "cscale": [1, 1], "cpi": 0, "bigprime": pc, "tscale": [1, 1], "tbig": pt_})
    ctx.cov["grid_cases"] = len(grid)
    for c, v in zip(grid, judge(grid)):
        if v is not None:
            ctx.fail(v["what"], v["replay"], detail={"case": c})
    cache = hyp.run_batches(ctx, case(), judge, 8 if quick else 80, 48, label="c16")
    judged = [json.loads(k) for k, (s, v) in cache.items() if s == "judged"]
    ctx.cov["random_cases"] = len(judged)
    for c in judged[:5]:
        ctx.sample(c)
