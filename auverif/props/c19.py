"""C19: ZERO is the exact zero of every unit (value level) and is never accepted where a point is required (negative probes)."""
import json

from hypothesis import strategies as st

from .. import core, hyp, model, progs, reps, units
from ..valrun import SAN_ENV, ValueRun

CFG = ("g++", "c++17")
HEADER = model.ALL_INCLUDES + '\n#include "c19.hh"\nusing namespace auv;\n'
SINGLE = '\n#ifdef AUV_SINGLE_TU\n#include "auv_main.cc"\nnamespace auv { int rc_run(const char *, size_t, PropFn, void *, uint64_t *) { return 2; } }\n#endif\n'
NEG_PRELUDE = model.ALL_INCLUDES + "\nusing namespace au;\n"
NEG = [
    ("P f() { P p = ZERO; return p; }", "Q f() { Q q = ZERO; return q; }", "QuantityPoint p = ZERO"),
    ("P f() { return P{ZERO}; }", "Q f() { return Q{ZERO}; }", "QuantityPoint{ZERO}"),
    ("void f(P &p) { p = ZERO; }", "void f(Q &q) { q = ZERO; }", "p = ZERO"),
    ("void g(P); void f() { g(ZERO); }", "void g(Q); void f() { g(ZERO); }", "f(ZERO) for a point parameter"),
    ("bool f(P p) { return p == ZERO; }", "bool f(Q q) { return q == ZERO; }", "p == ZERO"),
    ("bool f(P p) { return p < ZERO; }", "bool f(Q q) { return q < ZERO; }", "p < ZERO"),
    ("bool f(P p) { return ZERO >= p; }", "bool f(Q q) { return ZERO >= q; }", "ZERO >= p"),
    ("P f() { return ZERO; }", "Q f() { return ZERO; }", "return ZERO as a point"),
]


@st.composite
def inst(draw):
    return {"t": draw(units.tree(max_leaves=4)), "rep": draw(st.sampled_from(reps.ALL_REPS))}


def emit(insts):
    body = ['  { Zero19<%s, %s> z("%s", %s); z.run(); }' % (i["rep"], i["unit"], i["id"], "true" if i.get("canary") else "false") for i in insts]
    return HEADER + "using au::pow; using au::root;\nint main(int argc, char **argv) {\n  g_args = parse_args(argc, argv); install_death_callback();\n" + "\n".join(body) + "\n  return 0;\n}\n"


def run(ctx):
    ctx.cov["rule"] = ("instances (unit, rep): all 11 reps x library units (rotating) plus Hypothesis-generated compound/scaled units; values: every value for 8/16-bit reps, "
                       "a special grid (+-0, +-1, +-inf, +-NaN, denormals, limits) and rapidcheck draws (specials, raw bit patterns, small) otherwise; for each value the six "
                       "comparisons with ZERO in both operand orders must equal the raw comparison with 0, (q+ZERO),(q-ZERO),(ZERO+q) must be bit-equal (or both NaN) to the raw "
                       "x+0, x-0, 0+x on the promoted type with the raw result type, q+ZERO==q for non-NaN, Quantity{ZERO}/=ZERO/assignment give 0, R r = ZERO and "
                       "chrono::duration = ZERO give 0; ZERO converts (trait, static_cast, constexpr copy-init) to 0 of all 18 fundamental arithmetic types and 6 chrono durations under every configuration; the same TUs must be accepted by the other configurations; 8 negative probes with twins x units x reps: ZERO is never "
                       "accepted where a QuantityPoint is required. Non-trivial: x != 0 or special; distinct by (unit, rep, bits(x)).")
    ctx.assumptions += ["p + ZERO / p - ZERO are not asserted (not places where a point is required)"]
    quick = ctx.quick()
    insts = []
    for ri, rep in enumerate(reps.ALL_REPS):
        for j in range(2 if quick else 6):
            n = model.UNIT_NAMES[(ri * 5 + j * 11 + ctx.seed) % len(model.UNIT_NAMES)]
            insts.append({"rep": rep, "unit": "au::" + n})
    for c in hyp.collect(ctx, inst(), 30 if quick else 300):
        t = c["t"]
        units.fix_twins([t])
        if units.total_exponent_ok(t):
            insts.append({"rep": c["rep"], "unit": units.render_type(t), "tree": t})
    for k, i in enumerate(insts):
        i["id"] = "z%d" % k
    canary = {"rep": "int32_t", "unit": "au::Meters", "id": "canary", "canary": True}
    nsh = core.NCPU
    shards = [[] for _ in range(nsh)]
    for k, i in enumerate(insts):
        shards[k % nsh].append(i)
    shards[0].append(canary)
    shard_list = [("s%02d" % k, emit(s), [i["id"] for i in s]) for k, s in enumerate(shards) if s]
    vr = ValueRun(ctx, cfg=CFG, rc_cases=(150000 if quick else 2000000))
    vr.run(shard_list)
    by_id = {i["id"]: i for i in insts + [canary]}
    for s, cr in vr.compile_errors:
        name, p, ids, text = s
        if isinstance(cr, str):
            raise RuntimeError(cr)
        if cr.resource_limited:
            ctx.inconclusive += len(ids); continue
        for iid in ids:
            src = emit([by_id[iid]]) + SINGLE
            c1 = core.compile_one(CFG, ctx.write("iso/%s.cc" % iid, src), syntax_only=True, flags=["-DAUV_SINGLE_TU"])
            if not c1.ok and not c1.resource_limited:
                if progs.is_documented_ordering_limitation(c1):
                    ctx.bump("excluded_documented_limitation_hit"); continue
                if c1.harness_bug and "static assert" not in c1.err:
                    raise RuntimeError("C19 harness bug: " + c1.first_error())
                ctx.fail("C19: an expression mixing ZERO with Quantity<%s, %s> does not compile (or q + ZERO has the wrong rep): %s" % (by_id[iid]["unit"], by_id[iid]["rep"], c1.first_error()),
                         {"mode": "syntax", "expect": "ok", "src": src, "cfg": list(CFG), "flags": ["-DAUV_SINGLE_TU"]})
    others = [c for c in core.CONFIGS if c != CFG]
    jobs = [(name, text, cfg) for k, (name, text, ids) in enumerate(shard_list) for cfg in (others if not quick else [others[(ctx.seed + k) % 5]])]
    for (name, text, cfg), cr in zip(jobs, core.pmap(lambda j: core.compile_one(j[2], ctx.write("cfgs/%s.cc" % j[0], j[1]), syntax_only=True), jobs)):
        ctx.count(1)
        if not cr.ok and not cr.resource_limited:
            ctx.fail("C19: program mixing ZERO and quantities accepted by %s but rejected by %s: %s" % (core.cfg_name(CFG), core.cfg_name(cfg), cr.first_error()),
                     {"mode": "syntax", "expect": "ok", "src": text, "cfg": list(cfg)})
    got = False
    for f in vr.fails:
        if f["inst"] == "canary":
            got = True; continue
        i = by_id[f["inst"]]
        ctx.fail("C19: %s %s unit=%s" % (f["msg"], json.dumps(f["input"]), i["unit"]),
                 {"mode": "run", "src": emit([i]) + SINGLE, "cfg": list(CFG), "flags": vr.flags + ["-DAUV_SINGLE_TU"], "args": ["--one", i["id"], f["input"]["x"]], "env": SAN_ENV, "stdout": "AUVONE ok\n"}, detail=f)
    for d in vr.deaths:
        if d["inst"] == "canary":
            continue
        i = by_id.get(d["inst"])
        if i is None:
            raise RuntimeError("C19 value program died outside an instance: %s" % d)
        x = d["what"].split("x=")[1].strip()
        ctx.fail("C19: crash/UB at x=%s (%s, %s)" % (x, i["unit"], i["rep"]), {"mode": "run", "src": emit([i]) + SINGLE, "cfg": list(CFG), "flags": vr.flags + ["-DAUV_SINGLE_TU"], "args": ["--one", i["id"], x], "env": SAN_ENV, "stdout": "AUVONE ok\n"})
    if not got and not vr.compile_errors:
        raise RuntimeError("C19 canary not reported")
    for s in vr.stats:
        if s["inst"] == "canary":
            continue
        ctx.count(s["evals"]); ctx.add_nontrivial_count(s["nt"]); ctx.bump("special_values", s["hist"].get("special", 0))
        if s.get("exhaustive"):
            ctx.bump("exhaustive_instances")
        if len(ctx.cov["samples"]) < 6:
            ctx.sample({"rep": by_id[s["inst"]]["rep"], "unit": by_id[s["inst"]]["unit"], "evaluations": s["evals"]})
    # negative probes
    items, meta = [], []
    us = ["Meters", "Celsius", "Kelvins", "Seconds", "Unos", "Radians", "Newtons", "Percent"]
    k = 0
    for ui, U in enumerate(us):
        for ni, (bad, twin, what) in enumerate(NEG):
            for rep in (["int", "double"] if quick else ["int", "double", "float", "std::int8_t", "std::uint64_t", "long double"]):
                if quick and (ui + ni + ctx.seed) % 2:
                    continue
                pre = NEG_PRELUDE + "using P = QuantityPoint<%s, %s>; using Q = Quantity<%s, %s>;\n" % (U, rep, U, rep)
                items.append((pre, bad, twin, core.CONFIGS[(ctx.seed + k) % 6])); meta.append((U, rep, what)); k += 1
    for (U, rep, what), v in zip(meta, progs.judge_negative(ctx, items, tag="c19neg")):
        ctx.count(1)
        if v["status"] == "ok":
            ctx.nontrivial(("neg", U, rep, what))
        elif v["status"] == "accepted":
            ctx.fail("C19: ZERO accepted where a quantity point is required: %s for QuantityPoint<%s, %s> [%s]" % (what, U, rep, core.cfg_name(v["cfg"])),
                     {"mode": "syntax", "expect": "fail", "src": v["bad_src"], "cfg": list(v["cfg"])})
        elif v["status"] == "twin_failed":
            ctx.fail("C19: %s with a Quantity (the positive twin) does not compile for Quantity<%s, %s> [%s]: %s" % (what, U, rep, core.cfg_name(v["cfg"]), v["twin"].first_error()),
                     {"mode": "syntax", "expect": "ok", "src": v["twin_src"], "cfg": list(v["cfg"])})
        else:
            ctx.inconclusive += 1
    ctx.bump("negative_probes", len(items))
    # the same question asked in unevaluated contexts (traits, decltype detection): "never accepted" must also be the ANSWER, not only an error on use
    TRAITS = r"""
#include <type_traits>
#include <utility>
template <class A, class B, class = void> struct auv_eq : std::false_type {};
template <class A, class B> struct auv_eq<A, B, au::stdx::void_t<decltype(std::declval<A>() == std::declval<B>())>> : std::true_type {};
template <class A, class B, class = void> struct auv_lt : std::false_type {};
template <class A, class B> struct auv_lt<A, B, au::stdx::void_t<decltype(std::declval<A>() < std::declval<B>())>> : std::true_type {};
template <class A, class B, class = void> struct auv_sub : std::false_type {};
template <class A, class B> struct auv_sub<A, B, au::stdx::void_t<decltype(std::declval<A>() - std::declval<B>())>> : std::true_type {};
"""
    titems = []
    for ui, U in enumerate(us):
        for rep in ["int", "double", "std::uint8_t", "std::int64_t", "float"]:
            b = "using P = QuantityPoint<%s, %s>; using Q = Quantity<%s, %s>;\n" % (U, rep, U, rep)
            b += ('static_assert(!std::is_constructible<P, Zero>::value, "is_constructible<QuantityPoint, Zero>");\n'
                  'static_assert(!std::is_convertible<Zero, P>::value, "is_convertible<Zero, QuantityPoint>");\n'
                  'static_assert(!std::is_assignable<P &, Zero>::value, "is_assignable<QuantityPoint&, Zero>");\n'
                  'static_assert(!auv_eq<P, Zero>::value && !auv_eq<Zero, P>::value, "point == ZERO is well-formed");\n'
                  'static_assert(!auv_lt<P, Zero>::value && !auv_lt<Zero, P>::value, "point < ZERO is well-formed");\n'
                  'static_assert(std::is_constructible<Q, Zero>::value && std::is_convertible<Zero, Q>::value && std::is_assignable<Q &, Zero>::value, "Quantity from ZERO (twin)");\n'
                  'static_assert(auv_eq<Q, Zero>::value && auv_eq<Zero, Q>::value && auv_lt<Q, Zero>::value && auv_lt<Zero, Q>::value && auv_sub<Q, Zero>::value, "Quantity op ZERO (twin)");\n')
            titems.append((NEG_PRELUDE + TRAITS, b, core.CONFIGS[(ctx.seed + len(titems)) % 6]))
    for it, v in zip(titems, progs.judge_positive(ctx, titems, group=8, tag="c19traits")):
        ctx.count(7)
        if v.ok:
            ctx.nontrivial(("traits", it[1][:60]))
        elif v.inconclusive:
            ctx.inconclusive += 1
        else:
            ctx.fail("C19: a trait / decltype question reports ZERO as acceptable where a quantity point is required (or refuses the Quantity twin) [%s]: %s" % (core.cfg_name(it[2]), v.cr.first_error()),
                     {"mode": "syntax", "expect": "ok", "src": v.src, "cfg": list(it[2])})
    ctx.bump("trait_blocks", len(titems))
    # "it also converts to 0 of every arithmetic type and every chrono duration": every fundamental arithmetic type (not only the 11 reps), by trait and by value
    ARITH = ["bool", "char", "signed char", "unsigned char", "wchar_t", "char16_t", "char32_t", "short", "unsigned short", "int", "unsigned int", "long", "unsigned long",
             "long long", "unsigned long long", "float", "double", "long double"]
    CHRONO = ["std::chrono::nanoseconds", "std::chrono::hours", "std::chrono::duration<double>", "std::chrono::duration<float, std::ratio<1, 3>>",
              "std::chrono::duration<std::uint8_t, std::ratio<7, 11>>", "std::chrono::duration<long double, std::ratio<1000000007, 998244353>>"]
    aitems = []
    for cfg in core.CONFIGS:
        b = "".join('static_assert(std::is_convertible<Zero, %s>::value, "is_convertible<Zero, %s>");\n'
                    'static_assert(static_cast<%s>(ZERO) == static_cast<%s>(0), "static_cast<%s>(ZERO) == 0");\n'
                    'constexpr %s auv_z%d = ZERO; static_assert(auv_z%d == static_cast<%s>(0), "%s x = ZERO; x == 0");\n' % (t, t, t, t, t, t, k, k, t, t)
                    for k, t in enumerate(ARITH))
        b += "".join('static_assert(std::is_convertible<Zero, %s>::value, "is_convertible<Zero, %s>");\n'
                     'constexpr %s auv_d%d = ZERO; static_assert(auv_d%d.count() == 0, "%s d = ZERO; d.count() == 0");\n' % (t, t, t, k, k, t)
                     for k, t in enumerate(CHRONO))
        aitems.append((NEG_PRELUDE + "#include <chrono>\n#include <ratio>\n#include <type_traits>\n", b, cfg))
    for it, v in zip(aitems, progs.judge_positive(ctx, aitems, group=1, tag="c19arith")):
        ctx.count(3 * len(ARITH) + 2 * len(CHRONO))
        if v.ok:
            ctx.nontrivial(("arith", core.cfg_name(it[2])))
        elif v.inconclusive:
            ctx.inconclusive += 1
        else:
            ctx.fail("C19: ZERO does not convert to 0 of some arithmetic type / chrono duration [%s]: %s" % (core.cfg_name(it[2]), v.cr.first_error()),
                     {"mode": "syntax", "expect": "ok", "src": v.src, "cfg": list(it[2])})
    ctx.bump("arithmetic_conversion_blocks", len(aitems))
