"""C08: mixed-unit comparison, addition, subtraction, modulo are exact in the common unit."""
import json
from fractions import Fraction as F
from math import gcd

from hypothesis import strategies as st

from .. import core, hyp, model, progs, reps
from ..valrun import SAN_ENV, ValueRun

HEADER = '#include "au/au.hh"\n#include "au/units/meters.hh"\n#include "au/units/seconds.hh"\n#include "au/units/grams.hh"\n#include "c08.hh"\nusing namespace auv;\n'
BASES = ["au::Meters", "au::Seconds", "au::Grams"]
SIGNED = ["int8_t", "int16_t", "int32_t", "int64_t"]
UNSIGNED = ["uint8_t", "uint16_t", "uint32_t", "uint64_t"]
CFG = ("g++", "c++20")

GRID_RATIOS = [(F(12), F(1)), (F(3), F(1)), (F(36), F(12)), (F(1000), F(1)), (F(1), F(1000)), (F(1609344, 1000), F(1000)), (F(254, 10000), F(1, 100)),
               (F(60), F(1)), (F(3600), F(60)), (F(5, 9), F(1)), (F(1, 3), F(1, 2)), (F(2, 3), F(3, 4)), (F(1024), F(1000)), (F(7), F(5)),
               (F(1), F(1)), (F(1000000), F(1)), (F(1, 1000000), F(1, 1000)), (F(127, 5000), F(3048, 10000)), (F(15), F(10)), (F(30), F(1))]


def common(q1, q2):
    """gcd unit of two positive rationals: largest g with q1/g, q2/g integers"""
    n = gcd(q1.numerator * q2.denominator, q2.numerator * q1.denominator)
    g = F(n, q1.denominator * q2.denominator)
    return g


def ks(q1, q2):
    g = common(q1, q2)
    k1, k2 = q1 / g, q2 / g
    assert k1.denominator == 1 and k2.denominator == 1 and gcd(int(k1), int(k2)) == 1
    return int(k1), int(k2)


@st.composite
def rand_inst(draw):
    fam = draw(st.sampled_from([SIGNED, UNSIGNED]))
    r1, r2 = draw(st.sampled_from(fam)), draw(st.sampled_from(fam))
    q1 = F(draw(reps.smooth_number(10 ** 6)), draw(reps.smooth_number(10 ** 4)))
    q2 = F(draw(reps.smooth_number(10 ** 6)), draw(reps.smooth_number(10 ** 4)))
    if draw(st.integers(0, 2)) == 0:
        q2 = q1 * draw(st.sampled_from([2, 3, 5, 10, 12, 60, 1000, 1024]))
    return {"r1": r1, "r2": r2, "q1": [q1.numerator, q1.denominator], "q2": [q2.numerator, q2.denominator], "base": draw(st.integers(0, 2))}


def unit_expr(base, q):
    if q == 1:
        return base
    return "decltype(%s{} * %s)" % (base, reps.mag_expr(q.numerator, q.denominator))


def emit(insts):
    body = []
    for i in insts:
        u1, u2 = unit_expr(i["base"], i["q1"]), unit_expr(i["base"], i["q2"])
        if i.get("float"):
            body.append('  { MixedF<%s, %s, %s, %s> m("%s", %d.0L, %d.0L); m.run(); }' % (i["r1"], i["r2"], u1, u2, i["id"], i["k1"], i["k2"]))
        else:
            body.append('  { Mixed<%s, %s, %s, %s, %s> m("%s", %dull, %dull, %s); m.run(); }'
                        % (i["r1"], i["r2"], u1, u2, "true" if i["mod"] else "false", i["id"], i["k1"], i["k2"], "true" if i.get("canary") else "false"))
    return HEADER + "int main(int argc, char **argv) {\n  g_args = parse_args(argc, argv); install_death_callback();\n" + "\n".join(body) + "\n  return 0;\n}\n"


SINGLE = '\n#ifdef AUV_SINGLE_TU\n#include "auv_main.cc"\nnamespace auv { int rc_run(const char *, size_t, PropFn, void *, uint64_t *) { return 2; } }\n#endif\n'


def make_inst(r1, r2, q1, q2, base, src):
    if q1 == q2:
        return None     # same unit: not a mixed-unit case (and the same-type operators are C13's subject)
    k1, k2 = ks(q1, q2)
    R = reps.common_type(r1, r2)
    if not (reps.implicit_ok_same_rep(R, F(k1)) and reps.implicit_ok_same_rep(R, F(k2))):
        return None
    if k1 >= 2 ** 63 or k2 >= 2 ** 63:
        return None
    mod = reps.implicit_ok_same_rep(r1, F(k1)) and reps.implicit_ok_same_rep(r2, F(k2))
    return {"r1": r1, "r2": r2, "q1": q1, "q2": q2, "k1": k1, "k2": k2, "base": BASES[base], "mod": mod, "src": src, "R": R}


def negative_probes(ctx, rejected):
    """forms the model predicts NOT to compile (operand's own rep cannot take its scaling): '%' with a twin that compiles"""
    items, meta = [], []
    for r in rejected[: (6 if ctx.quick() else 40)]:
        u1, u2 = unit_expr(r["base"], r["q1"]), unit_expr(r["base"], r["q2"])
        pre = HEADER.replace('#include "c08.hh"\nusing namespace auv;\n', "")
        bad = "auto f() { return au::make_quantity<%s>(%s{1}) %% au::make_quantity<%s>(%s{1}); }" % (u1, r["r1"], u2, r["r2"])
        twin = "auto f() { return au::make_quantity<%s>(%s{1}) %% au::make_quantity<%s>(%s{1}); }" % (u1, "int64_t" if reps.is_signed(r["r1"]) else "uint64_t", u2, "int64_t" if reps.is_signed(r["r2"]) else "uint64_t")
        items.append((pre, bad, twin, core.CONFIGS[(ctx.seed + len(items)) % 6]))
        meta.append(r)
    for r, v in zip(meta, progs.judge_negative(ctx, items, tag="c08neg")):
        ctx.count(1)
        if v["status"] == "ok":
            ctx.nontrivial(("neg", r["r1"], r["r2"], r["k1"], r["k2"]))
        elif v["status"] == "accepted":
            ctx.fail("C08: q1 %% q2 compiles although %s cannot take factor %d (or %s factor %d) under the implicit-conversion policy"
                     % (r["r1"], r["k1"], r["r2"], r["k2"]), {"mode": "syntax", "expect": "fail", "src": v["bad_src"], "cfg": list(v["cfg"])}, detail=str(r))
        elif v["status"] == "inconclusive":
            ctx.inconclusive += 1
        else:
            ctx.bump("neg_twin_failed")


def run(ctx):
    ctx.cov["rule"] = ("instances (U1,U2 = base unit scaled by rationals q1,q2; R1,R2 integral of equal signedness) from a grid of library-like ratios x all rep "
                       "pairs plus Hypothesis-drawn smooth rationals, kept when the model (gcd unit, implicit-conversion policy for the common rep) predicts the "
                       "mixed expression compiles; values: all 256x65536 / 256x256 operand pairs when R1 is 8-bit, otherwise an enumerated edge grid and rapidcheck "
                       "draws from six classes (exactly equal x*k1==y*k2, off-by-one around equality, overflow edges of x*k1 and y*k2, raw, small, in-range); "
                       "oracle: 128-bit x*k1 vs y*k2 (skipped when either does not fit the common rep, or the raw sum/difference leaves the promoted type); six "
                       "comparisons both operand orders, +, -, % (own-rep scaling), <=> (C++20), result unit/rep by static_assert; float/double instances within "
                       "4 ulp and comparisons outside an 8-ulp band. Non-trivial: units not equivalent and (x,y)!=(0,0); distinct by (instance,x,y).")
    ctx.assumptions += ["precondition taken from the statement: x*k1 and y*k2 fit the common rep; raw-overflowing +/- are outside the domain", "ASan+UBSan non-recoverable (g++ -std=c++20)"]
    quick = ctx.quick()
    insts, rejected = [], []
    for gi, (q1, q2) in enumerate(GRID_RATIOS):
        for fam in (SIGNED, UNSIGNED):
            for r1 in fam:
                for r2 in fam:
                    if quick and (hash((gi, r1, r2, ctx.seed)) % 3 != 0) and not (reps.BITS[r1] == 8):
                        continue
                    i = make_inst(r1, r2, q1, q2, gi % 3, "grid")
                    if i is None and q1 != q2:
                        k1, k2 = ks(q1, q2)
                        rejected.append({"r1": r1, "r2": r2, "q1": q1, "q2": q2, "k1": k1, "k2": k2, "base": BASES[gi % 3]})
                    elif i is not None:
                        insts.append(i)
                        if not i["mod"] and (i["k1"] != 1 or i["k2"] != 1):
                            rejected.append(i)
    ng = len(insts)
    for r in hyp.collect(ctx, rand_inst(), 150 if quick else 1200):
        i = make_inst(r["r1"], r["r2"], F(*r["q1"]), F(*r["q2"]), r["base"], "random")
        if i:
            insts.append(i)
    # quick: cap 8-bit exhaustive instances with 16-bit partner (16M pairs each)
    out, n816 = [], 0
    seen = set()
    for i in insts:
        key = (i["r1"], i["r2"], i["k1"], i["k2"])
        if key in seen:
            continue
        seen.add(key)
        if reps.BITS[i["r1"]] == 8 and reps.BITS[i["r2"]] == 16:
            n816 += 1
            if quick and n816 > 10:
                continue
        i["id"] = "m%d" % len(out)
        out.append(i)
    insts = out
    ctx.bump("grid_instances", ng)
    ctx.bump("instances", len(insts))
    # floating instances
    fl = []
    for (q1, q2) in GRID_RATIOS[:12]:
        k1, k2 = ks(q1, q2)
        for r1, r2 in (("float", "float"), ("double", "double"), ("float", "double")):
            fl.append({"r1": r1, "r2": r2, "q1": q1, "q2": q2, "k1": k1, "k2": k2, "base": "au::Meters", "float": True, "id": "f%d" % len(fl)})
    canary = {"r1": "int32_t", "r2": "int32_t", "q1": F(12), "q2": F(1), "k1": 12, "k2": 1, "base": "au::Meters", "mod": False, "canary": True, "id": "canary"}
    nsh = core.NCPU
    shards = [[] for _ in range(nsh)]
    heavy = [i for i in insts if reps.BITS[i["r1"]] == 8 and reps.BITS[i["r2"]] == 16]
    light = [i for i in insts if i not in heavy]
    for k, i in enumerate(heavy + light + fl):
        shards[k % nsh].append(i)
    shards[0].append(canary)
    shard_list = [("s%02d" % k, emit(s), [i["id"] for i in s]) for k, s in enumerate(shards) if s]
    vr = ValueRun(ctx, cfg=CFG, rc_cases=(20000 if quick else 300000))
    vr.run(shard_list)
    by_id = {i["id"]: i for i in insts + fl + [canary]}
    for s, cr in vr.compile_errors:
        name, p, ids, text = s
        if isinstance(cr, str):
            raise RuntimeError(cr)
        if cr.resource_limited:
            ctx.inconclusive += len(ids)
            continue
        for iid in ids:
            src = emit([by_id[iid]]) + SINGLE
            c1 = core.compile_one(CFG, ctx.write("iso/%s.cc" % iid, src), syntax_only=True, flags=["-DAUV_SINGLE_TU"])
            if not c1.ok and not c1.resource_limited:
                if c1.harness_bug and "static assert" not in c1.err:
                    raise RuntimeError("C08 harness bug: " + c1.first_error() + "\n" + src[-800:])
                i = by_id[iid]
                ctx.fail("C08: mixed-unit expression predicted to compile is rejected (or result unit/rep wrong) for %s*%d vs %s*%d: %s" % (i["r1"], i["k1"], i["r2"], i["k2"], c1.first_error()),
                         {"mode": "syntax", "expect": "ok", "src": src, "cfg": list(CFG), "flags": ["-DAUV_SINGLE_TU"]}, detail=str(i))
    # other configurations must accept the same TUs
    others = [c for c in core.CONFIGS if c != CFG]
    jobs = []
    for k, (name, text, ids) in enumerate(shard_list):
        for cfg in (others if not quick else [others[(ctx.seed + k) % len(others)]]):
            jobs.append((name, text, ids, cfg))
    for (name, text, ids, cfg), cr in zip(jobs, core.pmap(lambda j: core.compile_one(j[3], ctx.write("cfgs/%s.cc" % j[0], j[1]), syntax_only=True), jobs)):
        ctx.count(1)
        if not cr.ok and not cr.resource_limited:
            ctx.fail("C08: generated mixed-unit program accepted by %s but rejected by %s: %s" % (core.cfg_name(CFG), core.cfg_name(cfg), cr.first_error()),
                     {"mode": "syntax", "expect": "ok", "src": text, "cfg": list(cfg)})
    got_canary = False
    for f in vr.fails:
        if f["inst"] == "canary":
            got_canary = True
            continue
        i = by_id[f["inst"]]
        inp = f["input"]
        ctx.fail("C08: %s %s" % (f["msg"], json.dumps(inp)),
                 {"mode": "run", "src": emit([i]) + SINGLE, "cfg": list(CFG), "flags": vr.flags + ["-DAUV_SINGLE_TU"],
                  "args": ["--one", i["id"], inp["x"], inp["y"]], "env": SAN_ENV, "stdout": "AUVONE ok\n"}, detail=f)
    for d in vr.deaths:
        if d["inst"] == "canary":
            continue
        i = by_id.get(d["inst"])
        if i is None:
            raise RuntimeError("C08 value program died outside an instance: %s" % d)
        w = d["what"]
        x = w.split("x=")[1].split()[0]
        y = w.split("y=")[1].strip()
        ctx.fail("C08: sanitizer/crash in library code at %s (%s*%d, %s*%d): %s" % (w, i["r1"], i["k1"], i["r2"], i["k2"], d.get("stderr", "")[-300:].replace("\n", " | ")),
                 {"mode": "run", "src": emit([i]) + SINGLE, "cfg": list(CFG), "flags": vr.flags + ["-DAUV_SINGLE_TU"],
                  "args": ["--one", i["id"], x, y], "env": SAN_ENV, "stdout": "AUVONE ok\n"}, detail=d)
    if not got_canary and not vr.compile_errors:
        raise RuntimeError("C08 canary not reported")
    nex = 0
    for s in vr.stats:
        if s["inst"] == "canary":
            continue
        ctx.count(s["evals"]); ctx.add_nontrivial_count(s["nt"])
        h = s["hist"]
        for kk in ("exactly_equal", "adjacent_to_equal", "skipped_precondition", "mod_evals", "in_band"):
            if kk in h:
                ctx.bump(kk, h[kk])
        nex += 1 if s.get("exhaustive") else 0
        if len(ctx.cov["samples"]) < 8 and (len(ctx.cov["samples"]) < 2 or int(s["inst"][1:]) % 23 == 5):
            i = by_id[s["inst"]]
            ctx.sample({"R1": i["r1"], "R2": i["r2"], "q1": str(i["q1"]), "q2": str(i["q2"]), "k1": i["k1"], "k2": i["k2"], "evaluations": s["evals"], "hist": h})
    ctx.cov["exhaustive_instances"] = nex
    negative_probes(ctx, rejected)
