"""C10: the common point unit keeps every input integral and non-negative (validity predicate, program level)."""
import itertools
import json
import os
from fractions import Fraction as F
from math import gcd

from hypothesis import strategies as st

from .. import core, hyp, progs

LIB = {
    "au::Kelvins": (F(1), F(0), None), "au::Celsius": (F(1), F(27315, 100), F(1, 100)),
    "au::Fahrenheit": (F(5, 9), F(45967, 100) * F(5, 9), F(5, 900)),
    "au::Milli<au::Kelvins>": (F(1, 1000), F(0), None), "au::Milli<au::Celsius>": (F(1, 1000), F(27315, 100), F(1, 100)),
    "au::Kilo<au::Fahrenheit>": (F(5000, 9), F(45967, 100) * F(5, 9), F(5, 900)), "au::Centi<au::Celsius>": (F(1, 100), F(27315, 100), F(1, 100)),
    "au::Kilo<au::Kelvins>": (F(1000), F(0), None), "au::Micro<au::Fahrenheit>": (F(5, 9000000), F(45967, 100) * F(5, 9), F(5, 900)),
}
PRELUDE = '''#include "au/au.hh"
#include "au/units/kelvins.hh"
#include "au/units/celsius.hh"
#include "au/units/fahrenheit.hh"
#include <cstdint>
#include <cstdio>
#include <type_traits>
typedef __int128 auv_i128;
struct auv_el { long long p0, p1, p7; long double l0, l1; unsigned long long u5; int isint, same; long long mn, md, on, od; };
// validity predicate, independent of how the library picks the common point unit
inline int auv_validate(int idx, const auv_el *e, int n) {
  const char *why = 0; int hit = 0, hit_same = 0;
  for (int a = 0; a < n && !why; ++a) {
    long long r = e[a].p1 - e[a].p0;
    if (!(r > 0)) why = "multiplier is not a positive integer";
    else if (e[a].p7 != 7 * r + e[a].p0) why = "conversion is not affine";
    else if (e[a].p0 < 0) why = "offset is negative";
    else if (e[a].l0 - (long double)e[a].p0 > 1e-3L || e[a].l0 - (long double)e[a].p0 < -1e-3L || e[a].l1 - (long double)e[a].p1 > 1e-3L || e[a].l1 - (long double)e[a].p1 < -1e-3L) why = "long double result differs from integer result (hidden truncation)";
    else if (e[a].u5 != (unsigned long long)(5 * r + e[a].p0)) why = "unsigned rep result differs";
    else if (!e[a].isint) why = "unit_ratio(input, common) is not an integer";
    if (r == 1 && e[a].p0 == 0) { ++hit; hit_same += e[a].same; }
  }
  for (int a = 0; a < n && !why; ++a) for (int b = 0; b < n && !why; ++b) {
    auv_i128 ra = e[a].p1 - e[a].p0, rb = e[b].p1 - e[b].p0, da = e[a].p0, db = e[b].p0;
    if (ra * e[b].mn * e[a].md != rb * e[a].mn * e[b].md) why = "scale ratio disagrees with the exact model";
    auv_i128 dn = auv_i128(e[a].on) * e[b].od - auv_i128(e[b].on) * e[a].od, dd = auv_i128(e[a].od) * e[b].od;
    if ((da - db) * dd * e[a].mn != ra * dn * e[a].md) why = "origin offset disagrees with the exact model";
  }
  if (!why && hit && !hit_same) why = "an input already has the common scale and origin but the common point unit is not one of the inputs";
  std::printf("AUVC10 %d %s\\n", idx, why ? why : "ok");
  return why ? 1 : 0;
}
'''


@st.composite
def gen_unit(draw):
    if draw(st.integers(0, 2)) == 0:
        return {"lib": draw(st.sampled_from(sorted(LIB)))}
    a, b = draw(st.integers(1, 1000)), draw(st.integers(1, 1000))
    c, d = draw(st.integers(1, 60)), draw(st.integers(1, 60))
    o = draw(st.sampled_from([0, 0, 1, -1])) * draw(st.integers(1, 500))
    return {"a": a, "b": b, "c": c, "d": d, "o": o, "origin_member": draw(st.booleans()) or o != 0}


@st.composite
def case(draw):
    n = draw(st.sampled_from([2, 2, 3]))
    us = [draw(gen_unit()) for _ in range(n)]
    if draw(st.integers(0, 4)) == 0:   # make one input already the common unit of a pair: Kelvins-scaled fine unit with smallest origin
        us[0] = {"a": 1, "b": draw(st.sampled_from([900, 1800, 100, 9000])), "c": 1, "d": 1, "o": -draw(st.integers(0, 3)), "origin_member": True}
    return {"us": us, "dup": draw(st.integers(0, 2))}


def model_of(u):
    """(scale, origin, origin-unit scale or None) as exact Fractions (in kelvins)"""
    if "lib" in u:
        return LIB[u["lib"]]
    g = gcd(u["a"], u["b"])
    m = F(u["a"], u["b"])
    if not u["origin_member"]:
        return (m, F(0), None)
    w = F(u["c"], u["d"])
    return (m, w * u["o"], w)


def rgcd(xs):
    xs = [x for x in xs if x != 0]
    n = 0
    den = 1
    for x in xs:
        den = den * x.denominator // gcd(den, x.denominator)
    for x in xs:
        n = gcd(n, int(x * den))
    return F(n, den)


def shrink_to_fit(us):
    """keep every library intermediate inside 62 bits (model-checked): otherwise reduce generated parameters (construction, not rejection)"""
    for attempt in range(6):
        ms = [model_of(u) for u in us]
        omin = min(o for (_, o, _) in ms)
        wmin = [w for (_, o, w) in ms if o == omin]
        ws = [w for (_, _, w) in ms if w is not None]
        fine = rgcd([m for (m, _, _) in ms] + ws + [o - omin for (_, o, _) in ms])
        worst = max([7 * m / fine for (m, _, _) in ms] + [abs(o - omin) / fine for (_, o, _) in ms] + [abs(o) / fine for (_, o, _) in ms])
        if worst < 2 ** 58:
            return us
        for u in us:
            if "lib" not in u:
                u["a"], u["b"], u["c"], u["d"] = u["a"] % 30 + 1, u["b"] % 30 + 1, u["c"] % 12 + 1, u["d"] % 12 + 1
    return [{"lib": "au::Kelvins"}, {"lib": "au::Celsius"}]


def unit_defs(us):
    names, defs = [], []
    for i, u in enumerate(us):
        if "lib" in u:
            names.append(u["lib"])
            continue
        name = "G%d" % i
        g = gcd(u["a"], u["b"])
        a, b = u["a"] // g, u["b"] // g
        base = "decltype(au::Kelvins{} * au::mag<%d>() / au::mag<%d>())" % (a, b)
        if u["origin_member"]:
            g2 = gcd(u["c"], u["d"])
            defs.append("struct %s : %s { static constexpr auto origin() { return (au::kelvins * au::mag<%d>() / au::mag<%d>())(std::int64_t{%d}); } };"
                        % (name, base, u["c"] // g2, u["d"] // g2, u["o"]))
        else:
            defs.append("struct %s : %s {};" % (name, base))
        names.append(name)
    return names, defs


def body_for(c, idx):
    us = shrink_to_fit([dict(u) for u in c["us"]])
    ms = [model_of(u) for u in us]
    # twin exclusion: distinct types with identical (scale, origin)
    ntw = 0
    for i in range(len(us)):
        for j in range(i):
            if ms[i][:2] == ms[j][:2] and json.dumps(us[i], sort_keys=True) != json.dumps(us[j], sort_keys=True):
                us[i] = dict(us[j]); ms[i] = ms[j]; ntw += 1
    names, defs = unit_defs(us)
    # identical generated parameters at different list positions must be the same type
    for i in range(len(us)):
        for j in range(i):
            if json.dumps(us[i], sort_keys=True) == json.dumps(us[j], sort_keys=True):
                names[i] = names[j]
    C = "au::CommonPointUnitT<%s>" % ", ".join(names)
    b = list(dict.fromkeys(defs))
    b.append("using C = %s;" % C)
    for p in list(itertools.permutations(range(len(names))))[1:]:
        b.append('static_assert(std::is_same<au::CommonPointUnitT<%s>, C>::value, "permutation");' % ", ".join(names[i] for i in p))
    b.append('static_assert(std::is_same<au::CommonPointUnitT<%s, %s>, C>::value, "repetition");' % (", ".join(names), names[c["dup"] % len(names)]))
    lines = []
    for j, u in enumerate(names):
        m, o, w = ms[j]
        lines.append('    { au::make_quantity_point<%s>(0).coerce_in<long long>(C{}), au::make_quantity_point<%s>(1).coerce_in<long long>(C{}), au::make_quantity_point<%s>(7).coerce_in<long long>(C{}), '
                     'au::make_quantity_point<%s>(0).coerce_in<long double>(C{}), au::make_quantity_point<%s>(1).coerce_in<long double>(C{}), au::make_quantity_point<%s>(5ull).coerce_in<unsigned long long>(C{}), '
                     '(int)au::is_integer(au::unit_ratio(%s{}, C{})), (int)std::is_same<C, %s>::value, %dLL, %dLL, %dLL, %dLL },'
                     % (u, u, u, u, u, u, u, u, m.numerator, m.denominator, o.numerator, o.denominator))
    b.append("int run() {\n  constexpr auv_el e[] = {\n" + "\n".join(lines) + "\n  };\n  return auv_validate(%d, e, %d);\n}" % (idx, len(names)))
    return "\n".join(b), ms, ntw, names


def run(ctx):
    ctx.cov["rule"] = ("pairs/triples of point units drawn by Hypothesis from Kelvins/Celsius/Fahrenheit/prefixed forms and generated units (scale a/b with a,b<=1000, "
                       "origin o*(c/d) K with c,d<=60, o in [-500,500], with or without an origin member; parameters reduced by construction until every library "
                       "intermediate fits 58 bits); static_assert: CommonPointUnitT identical for every permutation and under repetition; the generated program "
                       "evaluates (constexpr) make_quantity_point<Ui>(x).coerce_in<long long>(C) for x in {0,1,7}, the same in long double, and x=5 in unsigned long "
                       "long; the program applies the validity predicate: multiplier r=p(1)-p(0) positive integer, affine, offset p(0) >= 0, long double == integer values "
                       "(no hidden truncation), unsigned exact, is_integer(unit_ratio(Ui,C)), and cross-consistency with the exact model (r_i/r_j = scale ratio, "
                       "(d_i-d_j)/r_i = origin difference / scale); if an input has r=1,d=0 the common unit must be is_same as such an input. "
                       "Non-trivial: >= 2 distinct origins or scales; distinct by canonical JSON.")
    ctx.assumptions += ["origins of generated units use an int64_t rep (an int origin with fine units is refused by the library's own policy, by design)"]
    quick = ctx.quick()
    counter = {"n": 0}

    def judge(cases):
        base = counter["n"]
        counter["n"] += len(cases)
        group = 6
        batches = [list(range(k, min(k + group, len(cases)))) for k in range(0, len(cases), group)]
        out = [None] * len(cases)
        info = {}

        def build(idxs):
            bodies, calls = [], []
            for j, i in enumerate(idxs):
                body, ms, ntw, names = body_for(cases[i], base + i)
                info[i] = (ms, ntw)
                bodies.append(body)
                calls.append("  rc |= auv_case_%d::run();" % j)
            return progs.tu(PRELUDE, bodies, main=False) + "\n#line 1\nint main() {\n  int rc = 0;\n" + "\n".join(calls) + "\n  return rc;\n}\n"

        def do_batch(bi):
            idxs = batches[bi]
            cfg = core.CONFIGS[(ctx.seed + base + bi) % 6] if quick else None
            cfgs = [cfg] if cfg else core.CONFIGS
            res = {}
            for cfg in cfgs:
                src = build(idxs)
                p = ctx.write("c10/b_%s_%s.cc" % (core.sha(src), cfg[0][0] + cfg[1][-2:]), src)
                cr = core.compile_one(cfg, p, p[:-3] + ".exe", flags=["-O0"], timeout=900)
                if cr.ok:
                    rc, o, e, secs, to = core.run_cmd([p[:-3] + ".exe"], timeout=120)
                    verdicts = {}
                    for ln in o.splitlines():
                        if ln.startswith("AUVC10 "):
                            f = ln.split(None, 2)
                            verdicts[int(f[1])] = f[2]
                    for i in idxs:
                        vd = verdicts.get(base + i, "no output (rc=%d %s)" % (rc, e[-200:]))
                        if vd != "ok" and i not in res:
                            res[i] = ("value", vd, build([i]), cfg)
                    continue
                for i in idxs:
                    s1 = build([i])
                    c1 = core.compile_one(cfg, ctx.write("c10/s_%s.cc" % core.sha(s1), s1), syntax_only=True, timeout=600)
                    if c1.ok or i in res:
                        continue
                    if c1.resource_limited:
                        res[i] = ("inconclusive", "", s1, cfg)
                    elif progs.is_documented_ordering_limitation(c1):
                        res[i] = ("limitation", "", s1, cfg)
                    elif c1.harness_bug and "static assert" not in c1.err and "static_assert" not in c1.err:
                        raise RuntimeError("C10 harness bug: %s\n%s" % (c1.first_error(), s1[-1200:]))
                    else:
                        res[i] = ("compile", c1.first_error(), s1, cfg)
            return res
        for bi, res in enumerate(core.pmap(do_batch, range(len(batches)))):
            for i in batches[bi]:
                c = cases[i]
                ms, ntw = info[i]
                ctx.count(len(ms) * 8 + 3)
                if ntw:
                    ctx.bump("excluded_documented_limitation_twins_rewritten", ntw)
                r = res.get(i)
                nt = len(set(m[0] for m in ms)) >= 2 or len(set(m[1] for m in ms)) >= 2
                if r is None:
                    if nt:
                        ctx.nontrivial(c)
                    ctx.bump("distinct_origins_%d" % len(set(m[1] for m in ms)))
                    continue
                kind, msg, src, cfg = r
                if kind == "inconclusive":
                    ctx.inconclusive += 1
                elif kind == "limitation":
                    ctx.bump("excluded_documented_limitation_hit")
                elif kind == "compile":
                    out[i] = {"what": "C10 [%s] %s: %s" % (core.cfg_name(cfg), json.dumps(c)[:200], msg), "replay": {"mode": "syntax", "expect": "ok", "src": src, "cfg": list(cfg)}}
                else:
                    out[i] = {"what": "C10 [%s] %s: %s" % (core.cfg_name(cfg), json.dumps(c)[:200], msg),
                              "replay": {"mode": "run", "src": src, "cfg": list(cfg), "flags": ["-O0"]}}
        return out

    grid = []
    libs = sorted(LIB)
    for a, b in itertools.combinations(libs, 2):
        grid.append({"us": [{"lib": a}, {"lib": b}], "dup": 0})
    for a, b, c3 in list(itertools.combinations(libs, 3))[:: (4 if quick else 1)]:
        grid.append({"us": [{"lib": a}, {"lib": b}, {"lib": c3}], "dup": 1})
    for o in (-3, -1, 1, 5):
        grid.append({"us": [{"lib": "au::Kelvins"}, {"a": 1, "b": 1, "c": 1, "d": 1, "o": o, "origin_member": True}], "dup": 0})
        grid.append({"us": [{"lib": "au::Milli<au::Kelvins>"}, {"a": 3, "b": 10, "c": 5, "d": 9, "o": o * 7, "origin_member": True}, {"lib": "au::Celsius"}], "dup": 2})
    ctx.cov["grid_cases"] = len(grid)
    for c, v in zip(grid, judge(grid)):
        if v is not None:
            ctx.fail(v["what"], v["replay"], detail={"case": c})
    cache = hyp.run_batches(ctx, case(), judge, 8 if quick else 60, 48, label="c10")
    judged = [json.loads(k) for k, (s, v) in cache.items() if s == "judged"]
    ctx.cov["random_cases"] = len(judged)
    for c in judged[:4]:
        ctx.sample(c)
