"""C11: magnitude evaluation and classification are exact (program level)."""
import json
import math
from fractions import Fraction as F

import mpmath
from hypothesis import strategies as st

from .. import core, hyp, model, progs, reps

mpmath.mp.dps = 60
PRELUDE = '#include "au/magnitude.hh"\n#include <cstdint>\n#include <limits>\n#include <type_traits>\nusing au::pow; using au::root;\n'
# incl. primes well above 2^63 for which the Lucas half of the primality test takes a NEGATIVE Selfridge parameter (2^64-95, 3*2^62+17, 5*2^61+9)
PRIMES = [2, 3, 5, 7, 11, 13, 127, 8191, 65537, 2147483647, 2305843009213693951, 9223372036854775837, 18446744073709551557,
          18446744073709551521, 13835058055282163729, 11529215046068469769]
EXPS = [(1, 1), (2, 1), (3, 1), (-1, 1), (-2, 1), (7, 1), (8, 1), (15, 1), (16, 1), (31, 1), (32, 1), (63, 1), (64, 1), (-63, 1), (100, 1), (-100, 1),
        (127, 1), (128, 1), (-126, 1), (-149, 1), (-150, 1), (400, 1), (-400, 1), (1023, 1), (1024, 1), (-1074, 1), (-1075, 1), (5000, 1), (-5000, 1),
        (16383, 1), (16384, 1), (-16445, 1), (-16446, 1), (1, 2), (1, 3), (3, 2), (-1, 2), (2, 3), (5, 2)]
LD_LIMIT = 16382


def mval(m):
    return model.mag_float(m)


def log2v(m):
    s = mpmath.mpf(0)
    for k, e in m.items():
        b = mpmath.pi if k == "pi" else mpmath.mpf(k)
        s += mpmath.log(b, 2) * mpmath.mpf(e.numerator) / e.denominator
    return s


def ordered_bases(m):
    return sorted(m, key=lambda k: model.PI_ORDER if k == "pi" else F(k))


def computable(m):
    """documented caveat: the library multiplies base powers one at a time in long double / intmax; representability is only
    asserted when every base power and every partial product stays inside long double's finite normal range"""
    acc = mpmath.mpf(0)
    for k in ordered_bases(m):
        e = m[k]
        b = mpmath.pi if k == "pi" else mpmath.mpf(k)
        l = mpmath.log(b, 2) * mpmath.mpf(e.numerator) / e.denominator
        # an inverse power is computed as 1/(base^|e|): the positive power must be finite too
        if abs(l) > LD_LIMIT:
            return False
        acc += l
        if abs(acc) > LD_LIMIT:
            return False
    return True


def route_expr(m):
    """operator route: product of pow<n>(root<d>(prime)) terms (exercises the library's own algebra)"""
    parts = []
    for k in ordered_bases(m):
        e = m[k]
        b = "au::Magnitude<au::Pi>{}" if k == "pi" else "au::Magnitude<au::Prime<%dull>>{}" % k
        if e.denominator != 1:
            b = "root<%d>(%s)" % (e.denominator, b)
        if e.numerator != 1:
            b = "pow<%d>(%s)" % (e.numerator, b)
        parts.append(b)
    return "(" + " * ".join(parts) + ")" if parts else "au::Magnitude<>{}"


@st.composite
def mag_strategy(draw):
    n = draw(st.integers(0, 3))
    m = {}
    for _ in range(n):
        p = draw(st.sampled_from(PRIMES + ["pi"]))
        e = draw(st.sampled_from(EXPS))
        m[p] = F(e[0], e[1])
    return [[str(k), v.numerator, v.denominator] for k, v in m.items()]


SMALL = [3, 5, 7, 11, 13, 127, 8191, 65537]


@st.composite
def near_limit(draw, T):
    """magnitude constructed to land within a factor ~2 of a limit of T (instead of waiting for a random product to do so): integral T: odd part * 2^k in
    (max/2, max] or just above; floating T: 2^a * prod p^e (mixed signs, so that partial products over the smaller bases may pass the limit although the exact value
    does not, and vice versa) with log2 within ~1.5 of max, min normal or the smallest subnormal"""
    if reps.is_int(T):
        mx = reps.rmax(T)
        odd = 1
        for _ in range(draw(st.integers(0, 3))):
            p = draw(st.sampled_from(SMALL + [2147483647, 2305843009213693951, 9223372036854775837, 18446744073709551557, 13835058055282163729]))
            if odd * p <= mx:
                odd *= p
        k = 0
        while odd * 2 ** (k + 1) <= mx:
            k += 1
        k += draw(st.sampled_from([0, 0, 0, 1, -1]))          # 0: in (max/2, max]; +1: just beyond; -1: comfortably inside
        m = dict(reps.factorint(odd)) if odd > 1 else {}
        if k > 0:
            m[2] = m.get(2, 0) + k
        return [[str(b), e, 1] for b, e in sorted(m.items())]
    dig, emax, emin, edenorm = reps.FLT[T]
    target = draw(st.sampled_from([emax, emax, emax, emin, edenorm])) + draw(st.sampled_from([-1.5, -1.0, -0.6, -0.3, -0.05, 0.05, 0.3, 0.6, 1.0, 1.5]))
    m, acc = {}, mpmath.mpf(0)
    for _ in range(draw(st.integers(1, 3))):
        b = draw(st.sampled_from(SMALL + ["pi", 18446744073709551557]))
        e = draw(st.sampled_from([-1, -1, -2, -3, 1, 1, 2, 3, 5, -7, 40, -40]))
        if b in m:
            continue
        m[b] = e
        acc += mpmath.log(mpmath.pi if b == "pi" else mpmath.mpf(b), 2) * e
    a = int(mpmath.floor(target - acc + mpmath.mpf("0.5")))
    if a:
        m[2] = a
    return [[str(b), e, 1] for b, e in m.items()]


@st.composite
def case(draw):
    kind = draw(st.sampled_from(["value", "value", "value", "classify", "equal", "limit", "limit"]))
    T = draw(st.sampled_from(reps.ALL_REPS))
    if kind == "limit":
        return {"kind": "value", "m": draw(near_limit(T)), "T": T}
    c = {"kind": kind, "m": draw(mag_strategy()), "T": T}
    if kind == "equal":
        c["m2"] = draw(mag_strategy())
        c["same"] = draw(st.booleans())
    return c


def decode(mj):
    return model._clean({(k if k == "pi" else int(k)): F(n, d) for k, n, d in mj})


def int_value(m):
    if not model.mag_is_integer(m) and m:
        return None
    return int(model.mag_fraction(m)) if m else 1


def ldlit(x):
    return mpmath.nstr(x, 30, min_fixed=0, max_fixed=0).replace("e", "e") + "L"


def value_checks(m, T):
    """returns (positive static_asserts [list of str], negative statement or None, nontrivial)"""
    M = "decltype(%s)" % route_expr(m)
    pos, neg = [], None
    pos.append('static_assert(std::is_same<%s, %s>::value, "canonical magnitude type");' % (M, model.spell_mag(m)))
    Mi = M + "{}"
    nt = False
    lv = log2v(m)
    if reps.is_int(T):
        iv = int_value(m)
        ok = iv is not None and iv <= reps.rmax(T)
        pos.append('static_assert(au::representable_in<%s>(%s) == %s, "representable_in integral");' % (T, Mi, "true" if ok else "false"))
        if ok:
            pos.append('static_assert(au::get_value<%s>(%s) == static_cast<%s>(%dull), "get_value integral");' % (T, Mi, T, iv))
        else:
            neg = "constexpr auto v = au::get_value<%s>(%s);" % (T, Mi)
        if iv is not None and abs(lv - reps.BITS[T]) < 2:
            nt = True
        if iv is None or any(isinstance(k, int) and k > 2 ** 32 for k in m):
            nt = True
        return pos, neg, nt
    dig, emax, emin, edenorm = reps.FLT[T]
    hi_l2 = emax  # log2(max) ~ emax
    if not computable(m):
        # only: never a silently wrong number
        v = None
        if -16400 < lv < 16383:
            v = mval(m)
        if v is not None and -16380 < lv < 16380:
            tol = mpmath.mpf(2) ** (-(dig - 8))
            pos.append('static_assert(!au::representable_in<%s>(%s) || (static_cast<long double>(au::detail::get_value_result<%s>(%s).value) > %s && static_cast<long double>(au::detail::get_value_result<%s>(%s).value) < %s), "uncomputable magnitude: clean refusal or a correct value");'
                       % (T, Mi, T, Mi, ldlit(v * (1 - tol)), T, Mi, ldlit(v * (1 + tol))))
        else:
            pos.append('static_assert(!au::representable_in<%s>(%s) || au::detail::get_value_result<%s>(%s).value > 0, "never a silent zero");' % (T, Mi, T, Mi))
        return pos, None, True
    in_range = (lv >= edenorm + 1) and (lv <= emax - mpmath.mpf(2) ** -19)
    above = lv > emax + mpmath.mpf(2) ** -19
    below = lv < edenorm - 2
    if abs(lv - emax) < 1 or abs(lv - edenorm) < 2 or abs(lv - emin) < 1 or "pi" in m or any(v.denominator != 1 for v in m.values()) or any(isinstance(k, int) and k > 2 ** 32 for k in m):
        nt = True
    if in_range:
        v = mval(m)
        # pi (and every root) is itself only known to long double precision: each unit of exponent contributes up to one long-double ulp,
        # i.e. 2^(digits(T)-64) ulps of T; plus 4 ulps for the final rounding chain
        S = sum(abs(e.numerator) for e in m.values())
        ulps = 4 + S * 2.0 ** (dig - 64) + (8 * 2.0 ** (dig - 64) if any(e.denominator != 1 for e in m.values()) else 0)
        if lv >= emin:
            tol = v * ulps * mpmath.mpf(2) ** (-(dig - 1))
        else:
            tol = mpmath.mpf(2) ** edenorm * 1.01
        pos.append('static_assert(au::representable_in<%s>(%s), "representable_in floating");' % (T, Mi))
        pos.append('static_assert(au::get_value<%s>(%s) > 0, "strictly positive");' % (T, Mi))
        pos.append('static_assert(static_cast<long double>(au::get_value<%s>(%s)) >= %s && static_cast<long double>(au::get_value<%s>(%s)) <= %s, "get_value within tolerance");'
                   % (T, Mi, ldlit(v - tol), T, Mi, ldlit(v + tol)))
    elif above:
        pos.append('static_assert(!au::representable_in<%s>(%s), "beyond max must not be representable");' % (T, Mi))
        neg = "constexpr auto v = au::get_value<%s>(%s);" % (T, Mi)
    elif below:
        pos.append('static_assert(!au::representable_in<%s>(%s) || au::detail::get_value_result<%s>(%s).value > 0, "underflow must not be a silent zero");' % (T, Mi, T, Mi))
        neg = None
    return pos, neg, nt


def classify_checks(m):
    Mi = "decltype(%s){}" % route_expr(m)
    pos = []
    is_int = model.mag_is_integer(m) or not m
    is_rat = model.mag_is_rational(m)
    pos.append('static_assert(au::is_integer(%s) == %s, "is_integer");' % (Mi, "true" if is_int else "false"))
    pos.append('static_assert(au::is_rational(%s) == %s, "is_rational");' % (Mi, "true" if is_rat else "false"))
    num = {k: v for k, v in m.items() if v > 0}
    den = {k: -v for k, v in m.items() if v < 0}
    ip = {k: F(math.floor(v)) for k, v in m.items() if k != "pi" and v >= 1}
    pos.append('static_assert(std::is_same<decltype(au::numerator(%s)), %s>::value, "numerator");' % (Mi, model.spell_mag(num)))
    pos.append('static_assert(std::is_same<decltype(au::denominator(%s)), %s>::value, "denominator");' % (Mi, model.spell_mag(den)))
    pos.append('static_assert(std::is_same<decltype(au::integer_part(%s)), %s>::value, "integer_part");' % (Mi, model.spell_mag(ip)))
    pos.append('static_assert(au::numerator(%s) / au::denominator(%s) == %s, "numerator/denominator recompose");' % (Mi, Mi, Mi))
    return pos


def prepare(c):
    m = decode(c["m"])
    if c["kind"] == "value":
        pos, neg, nt = value_checks(m, c["T"])
        return pos, neg, nt
    if c["kind"] == "classify":
        return classify_checks(m), None, bool(m)
    m2 = decode(c["m2"])
    if c["same"]:
        # equal by another route: (m*m2)/m2  and  pow<2>(root<2>(m))
        e1 = "((%s * %s) / %s)" % (route_expr(m), route_expr(m2), route_expr(m2))
        e2 = "pow<2>(root<2>(%s))" % route_expr(m)
        pos = ['static_assert(%s == %s, "equal magnitudes (route 1)");' % (e1, route_expr(m)), 'static_assert(%s == %s, "equal magnitudes (route 2)");' % (e2, route_expr(m)),
               'static_assert(!(%s != %s), "operator!=");' % (e1, route_expr(m))]
        return pos, None, bool(m)
    eq = (m == m2)
    pos = ['static_assert((%s == %s) == %s, "magnitude equality");' % (route_expr(m), route_expr(m2), "true" if eq else "false"),
           'static_assert((%s != %s) == %s, "magnitude inequality");' % (route_expr(m), route_expr(m2), "false" if eq else "true")]
    # near miss: one prime exponent off by one
    nm = dict(m); nm[3] = nm.get(3, F(0)) + 1
    pos.append('static_assert(!(%s == %s), "near miss must differ");' % (route_expr(m), route_expr(model._clean(nm))))
    return pos, None, True


def grid():
    out = []
    two = lambda e: [["2", e, 1]]
    # integer limits: 2^k, 2^k - 1 (Mersenne-like factorisations via model), every integral T
    for T in reps.INT_REPS:
        b = reps.BITS[T]
        for k in (b - 2, b - 1, b, b + 1):
            out.append({"kind": "value", "m": two(k), "T": T})
        mx = reps.rmax(T)
        for v in (mx, mx - 1):
            f = reps.factorint(v)
            out.append({"kind": "value", "m": [[str(p), e, 1] for p, e in f.items()], "T": T})
        for p in (9223372036854775837, 18446744073709551557, 18446744073709551521, 13835058055282163729):
            out.append({"kind": "value", "m": [[str(p), 1, 1]], "T": T})
        out.append({"kind": "value", "m": [["2", 1, 2]], "T": T})
        out.append({"kind": "value", "m": [["2", -1, 1]], "T": T})
        out.append({"kind": "value", "m": [["pi", 1, 1]], "T": T})
    for T in reps.FLOAT_REPS:
        dig, emax, emin, edenorm = reps.FLT[T]
        for e in (emax - 1, emax, emax + 1, emin, emin - 1, edenorm + 1, edenorm, edenorm - 1, edenorm - 3, -emax, 1, 0, 10):
            out.append({"kind": "value", "m": two(e), "T": T})
        for e in (30, -30, 60, -60, 400, -400, 5000, -5000, 4900, -4940):
            out.append({"kind": "value", "m": [["2", e, 1], ["5", e, 1]], "T": T})
        for mj in ([["2", 1, 2]], [["10", 1, 3]] if False else [["2", 1, 3], ["5", 1, 3]], [["7", 1, 5]], [["pi", 3, 1]], [["pi", 1, 2]], [["pi", -1, 1]], [["2", 20000, 1], ["5", -8600, 1]],
                   [["2", -16000, 1], ["3", -10000, 1], ["5", 6800, 1], ["7", 5700, 1]], [["3", 2, 1], ["pi", 1, 1], ["5", -1, 1]]):
            out.append({"kind": "value", "m": mj, "T": T})
    for mj in ([["2", 3, 1], ["3", -2, 1]], [["2", 3, 2], ["5", -1, 2]], [["pi", 2, 1], ["7", 1, 1]], [], [["2", 1, 1]], [["3", 7, 3], ["11", -5, 2], ["pi", -1, 3]]):
        out.append({"kind": "classify", "m": mj, "T": "int32_t"})
        out.append({"kind": "equal", "m": mj, "m2": [["5", 1, 1], ["2", -1, 1]], "same": True, "T": "int32_t"})
        out.append({"kind": "equal", "m": mj, "m2": [["5", 1, 1], ["2", -1, 1]], "same": False, "T": "int32_t"})
    return out


def run(ctx):
    ctx.cov["rule"] = ("magnitudes prod p^(a/b) * pi^(c/d) with primes in {2,3,5,7,11,13,127,8191,65537,2^31-1,2^61-1, first prime above 2^63, 2^64-59} and exponents from a set that "
                       "straddles every limit (2^7..2^64, FLT/DBL/LDBL max, min normal, smallest subnormal, 10^+-30/60/400/5000, roots), built through the library's own operators "
                       "(pow<>, root<>, *, /) and required to be is_same as the model-spelled canonical type; for each of 8 integral + 3 floating T: representable_in<T> vs the exact "
                       "value; get_value<T> exact (integral) or > 0 and within 4 ulp (float/double; 4 + sum|exp|/8 ulp long double) by static_assert against 30-digit mpmath "
                       "bounds; get_value<T> must fail to compile when not representable (negative probe with a twin); below lo/4: never a silent zero; magnitudes whose partial "
                       "products leave long double's range are only required to be refused cleanly or be correct (documented computability caveat); is_integer, is_rational, "
                       "numerator, denominator, integer_part as spelled types; equality via two construction routes and near misses. A fixed grid runs first. "
                       "Non-trivial: value within a factor 2 of a limit of T, irrational, rational exponent, or a prime factor above 2^32; distinct by (magnitude, T, kind).")
    ctx.assumptions += ["exact values from Fractions / mpmath (60 digits)", "bands between [2*denorm_min, max*(1-2^-20)] and the refusal regions are unconstrained"]
    quick = ctx.quick()
    counter = {"n": 0}

    def judge(cases):
        base = counter["n"]; counter["n"] += len(cases)
        preps = [prepare(c) for c in cases]
        items, back = [], []
        for k, (pos, neg, nt) in enumerate(preps):
            cfgs = core.CONFIGS if not quick else [core.CONFIGS[(ctx.seed + base + k) % 6]]
            for cfg in cfgs:
                items.append((PRELUDE, "\n".join(pos), cfg)); back.append(k)
        vs = progs.judge_positive(ctx, items, group=10, tag="c11")
        out = [None] * len(cases)
        for k, v, it in zip(back, vs, items):
            c = cases[k]
            ctx.count(len(preps[k][0]))
            ctx.bump("kind_" + c["kind"]); ctx.bump("T_" + c["T"].replace(" ", "_") if c["kind"] == "value" else "T_na")
            if v.ok:
                if preps[k][2]:
                    ctx.nontrivial(c)
            elif v.inconclusive:
                ctx.inconclusive += 1
            elif out[k] is None:
                out[k] = {"what": "C11 %s T=%s m=%s [%s]: %s" % (c["kind"], c["T"], json.dumps(c["m"]), core.cfg_name(it[2]), v.cr.first_error()),
                          "replay": {"mode": "syntax", "expect": "ok", "src": v.src, "cfg": list(it[2])}}
        # negative probes
        nitems, nback = [], []
        for k, (pos, neg, nt) in enumerate(preps):
            if neg is None or (quick and (base + k + ctx.seed) % 3):
                continue
            twin = "constexpr auto v = au::get_value<%s>(au::Magnitude<au::Prime<2ull>>{});" % cases[k]["T"]
            nitems.append((PRELUDE, neg, twin, core.CONFIGS[(ctx.seed + base + k) % 6])); nback.append(k)
        for k, v in zip(nback, progs.judge_negative(ctx, nitems, tag="c11neg")):
            c = cases[k]
            ctx.count(1); ctx.bump("negative_probes")
            if v["status"] == "ok":
                ctx.nontrivial(("neg", c))
            elif v["status"] == "accepted" and out[k] is None:
                out[k] = {"what": "C11: get_value<%s> compiles for a magnitude that is not representable: m=%s" % (c["T"], json.dumps(c["m"])),
                          "replay": {"mode": "syntax", "expect": "fail", "src": v["bad_src"], "cfg": list(v["cfg"])}}
            elif v["status"] == "inconclusive":
                ctx.inconclusive += 1
            elif v["status"] == "twin_failed" and out[k] is None:
                out[k] = {"what": "C11: get_value<%s>(mag<2>()) (the positive twin of a negative probe) does not compile: %s" % (c["T"], v["twin"].first_error()),
                          "replay": {"mode": "syntax", "expect": "ok", "src": v["twin_src"], "cfg": list(v["cfg"])}}
        return out

    g = grid()
    ctx.cov["grid_cases"] = len(g)
    for c, v in zip(g, judge(g)):
        if v is not None:
            ctx.fail(v["what"], v["replay"], detail={"case": c})
    cache = hyp.run_batches(ctx, case(), judge, 40 if quick else 300, 48, label="c11")
    judged = [json.loads(k) for k, (s, v) in cache.items() if s == "judged"]
    ctx.cov["random_cases"] = len(judged)
    for c in judged[:5]:
        ctx.sample(c)
