"""C14: products, quotients and powers (value level) + guards on integer division and as_raw_number (negative probes)."""
import copy
import json
from fractions import Fraction as F

from hypothesis import strategies as st

from .. import core, hyp, model, progs, reps, units
from ..valrun import SAN_ENV, ValueRun

CFG = ("g++", "c++17")
HEADER = model.ALL_INCLUDES + '\n#include "c14.hh"\nusing namespace auv;\nusing au::pow; using au::root;\n'
SINGLE = '\n#ifdef AUV_SINGLE_TU\n#include "auv_main.cc"\nnamespace auv { int rc_run(const char *, size_t, PropFn, void *, uint64_t *) { return 2; } }\n#endif\n'
NEG_PRELUDE = model.ALL_INCLUDES + "\nusing namespace au;\n"


def L(n): return {"k": "leaf", "n": n}


@st.composite
def pair(draw):
    t1 = draw(units.tree(max_leaves=3))
    kind = draw(st.sampled_from(["cancel", "cancel", "cancel_dim", "cancel_dim", "random", "random", "same", "powpair", "powpair"]))
    c = {"t1": t1, "kind": kind, "pp": draw(st.sampled_from([((1, 2), (2, 1)), ((2, 1), (1, 2)), ((1, 3), (3, 1)), ((3, 1), (1, 3)), ((3, 2), (2, 3)), ((1, 2), (-2, 1)), ((1, 2), (1, 3)), ((2, 3), (3, 1))])), "r1": draw(st.sampled_from(reps.ALL_REPS)), "r2": draw(st.sampled_from(reps.ALL_REPS)), "s": draw(st.sampled_from([(1000, 1), (1, 1000), (12, 1), (1, 100), (3, 7), (60, 1)]))}
    if kind == "random":
        c["t2"] = draw(units.tree(max_leaves=3))
    return c


def second_unit(c):
    t1 = c["t1"]
    if c["kind"] == "powpair":
        # U1 = B^a, U2 = B^b on the SAME base with a != +-b (root with an integer power, ...): product and quotient keep the exponents a+b and a-b, nothing cancels
        return {"k": "pow", "a": copy.deepcopy(c["base"]), "n": c["pp"][1][0], "d": c["pp"][1][1]}
    if c["kind"] == "cancel":
        return {"k": "pow", "a": copy.deepcopy(t1), "n": -1, "d": 1}      # U1 * U2 is exactly unitless
    if c["kind"] == "cancel_dim":
        return {"k": "scale", "a": {"k": "pow", "a": copy.deepcopy(t1), "n": -1, "d": 1}, "num": c["s"][0], "den": c["s"][1], "pi": [0, 1]}   # dimension cancels, magnitude does not
    if c["kind"] == "same":
        return copy.deepcopy(t1)                                             # U1 / U2 is exactly unitless
    return copy.deepcopy(c["t2"])


def prod_line(c, idx, canary=False):
    t1 = copy.deepcopy(c["t1"])
    if c["kind"] == "powpair":
        base = t1
        units.fix_twins([base])
        c = dict(c); c["base"] = base
        t1 = {"k": "pow", "a": copy.deepcopy(base), "n": c["pp"][0][0], "d": c["pp"][0][1]}
        c["t1"] = t1
    t2 = second_unit(c)
    ntw = units.fix_twins([t1, t2]) if c["kind"] == "random" else units.fix_twins([t1]) * 0
    if c["kind"] not in ("random", "powpair"):
        # keep t2 consistent with a possibly rewritten t1
        cc = dict(c); cc["t1"] = t1; t2 = second_unit(cc)
    if not (units.total_exponent_ok(t1) and units.total_exponent_ok(t2)):
        return None
    u1, u2 = units.evaluate(t1), units.evaluate(t2)
    m, d = u1 * u2, u1 / u2
    if not all(abs(v) <= 24 for v in list(m.mag.values()) + list(d.mag.values()) + list(m.dim.values()) + list(d.dim.values())):
        return None
    mu = not m.dim and not m.mag
    du = not d.dim and not d.mag
    eq = (u1.dim == u2.dim and u1.mag == u2.mag)
    line = '  { Prod14<%s, %s, %s, %s, %s, %s, %s, %s, %s, %s, %s> p("%s", %s); p.run(); }' % (
        c["r1"], c["r2"], units.render_type(t1), units.render_type(t2), model.spell_dim(m.dim), model.spell_mag(m.mag), model.spell_dim(d.dim), model.spell_mag(d.mag),
        "true" if mu else "false", "true" if du else "false", "true" if eq else "false", "canary" if canary else "m%d" % idx, "true" if canary else "false")
    return line, {"kind": c["kind"], "r1": c["r1"], "r2": c["r2"], "mul_unitless": mu, "div_unitless": du, "equiv": eq, "u1": units.render_unit(t1)[:80], "u2": units.render_unit(t2)[:80]}


def pow_line(t, rep, idx):
    u = units.evaluate(t).pow(F(1, 2))
    return '  { Pow14<%s, %s, %s, %s> p("w%d"); p.run(); }' % (rep, units.render_type(t), model.spell_dim(u.dim), model.spell_mag(u.mag), idx)


def emit(lines):
    return HEADER + "int main(int argc, char **argv) {\n  g_args = parse_args(argc, argv); install_death_callback();\n" + "\n".join(lines) + "\n  return 0;\n}\n"


def negative(ctx, rnd_units):
    """guards: integral/integral division with non-equivalent units, integer / integral quantity, as_raw_number"""
    items, meta = [], []
    ints = ["int", "std::int64_t", "std::uint8_t", "std::uint32_t"]
    k = 0
    pairs = [("Meters", "Seconds"), ("Feet", "Inches"), ("Hertz", "Seconds"), ("Percent", "Degrees"), ("Meters", "Kilo<Meters>"), ("Newtons", "Meters"), ("Radians", "Degrees")]
    for (a, b) in pairs:
        for ri, r in enumerate(ints):
            r2 = ints[(ri + k) % len(ints)]
            pre = NEG_PRELUDE + "using Q1 = Quantity<%s, %s>; using Q2 = Quantity<%s, %s>;\n" % (a, r, b, r2)
            items.append((pre, "auto f(Q1 a, Q2 b) { return a / b; }", "auto f(Q1 a, Q2 b) { return a / unblock_int_div(b); }", core.CONFIGS[(ctx.seed + k) % 6])); meta.append("integral quantity / integral quantity of a non-equivalent unit (%s/%s)" % (a, b)); k += 1
            items.append((pre, "auto f(Q2 b) { return %s{5} / b; }" % r, "auto f(Q2 b) { return %s{5} / unblock_int_div(b); }" % r, core.CONFIGS[(ctx.seed + k) % 6])); meta.append("integer / integral quantity (%s)" % b); k += 1
            items.append((pre, "auto f(Q2 b) { return %s{5} / b; }" % r, "auto f(Quantity<%s, double> b) { return %s{5} / b; }" % (b, r), core.CONFIGS[(ctx.seed + k) % 6])); meta.append("integer / integral quantity vs floating twin (%s)" % b); k += 1
    dimd = ["Meters", "Hertz", "Newtons", "Radians", "Bits", "Kelvins"]
    for u in dimd:
        for r in ["int", "double", "float"]:
            pre = NEG_PRELUDE
            items.append((pre, "auto f(Quantity<%s, %s> q) { return as_raw_number(q); }" % (u, r), "auto f(Quantity<Unos, %s> q) { return as_raw_number(q); }" % r, core.CONFIGS[(ctx.seed + k) % 6])); meta.append("as_raw_number of a dimensioned quantity (%s)" % u); k += 1
    # dimensionless but not policy-safe: percent / ratios with integral rep (conversion to unitless truncates or may overflow)
    for uexpr, r in [("Percent", "int"), ("Percent", "std::int64_t"), ("decltype(Mega<Meters>{} / Milli<Meters>{})", "int"), ("decltype(Meters{} / Kilo<Meters>{})", "std::uint32_t"),
                     ("decltype(Feet{} / Inches{})", "std::int8_t"), ("decltype(Unos{} * mag<3>() / mag<2>())", "std::int64_t"), ("decltype(Giga<Unos>{})", "std::int32_t")]:
        items.append((NEG_PRELUDE, "auto f(Quantity<%s, %s> q) { return as_raw_number(q); }" % (uexpr, r), "auto f(Quantity<%s, double> q) { return as_raw_number(q); }" % uexpr, core.CONFIGS[(ctx.seed + k) % 6]))
        meta.append("as_raw_number of a dimensionless quantity whose conversion to unitless is not policy-safe (%s, %s)" % (uexpr, r)); k += 1
    # policy-safe dimensionless integral: must be accepted (positive twin of the above family)
    pos = [(NEG_PRELUDE, 'static_assert(as_raw_number(make_quantity<decltype(Kilo<Meters>{} / Meters{})>(3)) == 3000, "kilo ratio");\nstatic_assert(as_raw_number(make_quantity<decltype(Feet{} / Inches{})>(2)) == 24, "ft/in");\n'
            'static_assert(as_raw_number(percent(50.0)) == 0.5, "percent double");\nstatic_assert(as_raw_number(7) == 7, "identity on raw numbers");', core.CONFIGS[(ctx.seed + j) % 6]) for j in range(2)]
    for v in progs.judge_positive(ctx, pos, group=1, tag="c14pos"):
        ctx.count(4)
        if not v.ok and not v.inconclusive:
            ctx.fail("C14: as_raw_number rejects / miscomputes a policy-safe dimensionless quantity: " + v.cr.first_error(), {"mode": "syntax", "expect": "ok", "src": v.src, "cfg": list(v.cfg)})
    for what, v in zip(meta, progs.judge_negative(ctx, items, tag="c14neg")):
        ctx.count(1)
        if v["status"] == "ok":
            ctx.nontrivial(("neg", what, core.cfg_name(v["cfg"])))
        elif v["status"] == "accepted":
            ctx.fail("C14 guard missing: %s compiles [%s]" % (what, core.cfg_name(v["cfg"])), {"mode": "syntax", "expect": "fail", "src": v["bad_src"], "cfg": list(v["cfg"])})
        elif v["status"] == "twin_failed":
            ctx.fail("C14: the sanctioned form of '%s' is rejected [%s]: %s" % (what, core.cfg_name(v["cfg"]), v["twin"].first_error()), {"mode": "syntax", "expect": "ok", "src": v["twin_src"], "cfg": list(v["cfg"])})
        else:
            ctx.inconclusive += 1
    ctx.bump("negative_probes", len(items))


def run(ctx):
    ctx.cov["rule"] = ("unit pairs (U1 a Hypothesis-generated tree; U2 = 1/U1 (product exactly unitless), U1 itself (quotient exactly unitless), 1/U1 scaled (dimension cancels, magnitude "
                       "does not) or an independent tree) x rep pairs from the 11 reps: decltype(a*b) and decltype(a/b) must be the raw number type exactly when the model says the units "
                       "cancel to the unitless unit, else a Quantity whose unit has the model's spelled Dimension/Magnitude and whose rep is the raw operator's type; values bit-equal "
                       "(or both NaN) to the raw operator: all 8-bit x 8-bit operand pairs, a 12x12 special grid and rapidcheck draws otherwise (raw-UB pairs excluded); "
                       "a / unblock_int_div(b) always accepted (value checked; either collapse form accepted); powers: int_pow<0..4> exact when representable (integral) / 4 ulp "
                       "(floating, also negative exponents), sqrt/cbrt bit-equal to std:: with unit U^(1/n), 1/q and x/q; guards as negative probes with twins: integral/integral "
                       "division of non-equivalent units, integer / integral quantity, as_raw_number for dimensioned and for non-policy-safe dimensionless quantities. "
                       "Non-trivial: non-equivalent units or a cancelling pair, operands not both zero; distinct by (instance, operands).")
    ctx.assumptions += ["collapse rule asserted for * and / between quantities only (documented scope)", "int_pow result rep recorded, not asserted"]
    quick = ctx.quick()
    lines, metas = [], []
    seenp = set()
    cases = hyp.collect(ctx, pair(), 70 if quick else 600)
    grid = [{"t1": L("Hertz"), "kind": "random", "t2": L("Seconds"), "r1": "int32_t", "r2": "double", "s": (1, 1)}, {"t1": L("Meters"), "kind": "same", "r1": "int8_t", "r2": "int8_t", "s": (1, 1)},
            {"t1": L("Feet"), "kind": "random", "t2": L("Inches"), "r1": "uint8_t", "r2": "uint8_t", "s": (1, 1)}, {"t1": L("Percent"), "kind": "random", "t2": L("Unos"), "r1": "double", "r2": "float", "s": (1, 1)},
            {"t1": {"k": "div", "a": L("Meters"), "b": L("Seconds")}, "kind": "cancel", "r1": "int64_t", "r2": "uint16_t", "s": (1, 1)}, {"t1": L("Radians"), "kind": "same", "r1": "long double", "r2": "int16_t", "s": (1, 1)},
            {"t1": L("Hertz"), "kind": "cancel_dim", "r1": "int8_t", "r2": "uint8_t", "s": (1, 1000)}]
    for c in grid + cases:
        r = prod_line(c, len(lines))
        if r is None:
            ctx.bump("degenerate_case_skipped"); continue
        if r[0] in seenp:
            continue
        seenp.add(r[0]); lines.append(r[0]); metas.append(r[1])
        ctx.bump("pair_kind_" + c["kind"])
    npairs = len(lines)
    # powers
    ptrees = [L("Meters"), {"k": "div", "a": L("Meters"), "b": L("Seconds")}, L("Hertz"), {"k": "pre", "p": "Kilo", "n": "Grams"}, L("Unos"), {"k": "pow", "a": L("Feet"), "n": 2, "d": 1}]
    k = 0
    for ri, rep in enumerate(reps.ALL_REPS):
        for j in range(1 if quick else 3):
            t = ptrees[(ri + j + ctx.seed) % len(ptrees)]
            lines.append(pow_line(t, rep, k)); metas.append({"powers": rep, "unit": units.render_unit(t)}); k += 1
    ids = ["m%d" % i for i in range(npairs)] + ["w%d" % i for i in range(k)]
    # the ids inside prod lines were assigned by position in 'lines' at creation time: rebuild mapping from the text
    import re
    ids = [re.search(r'p\("([mw]\d+)"', ln).group(1) for ln in lines]
    can = prod_line({"t1": L("Meters"), "kind": "random", "t2": L("Seconds"), "r1": "int32_t", "r2": "int32_t", "s": (1, 1)}, 0, canary=True)[0]
    nsh = core.NCPU
    shards = [[] for _ in range(nsh)]
    for j in range(len(lines)):
        shards[j % nsh].append(j)
    shard_list = [("s%02d" % j, emit([lines[x] for x in s] + ([can] if j == 0 else [])), [ids[x] for x in s] + (["canary"] if j == 0 else [])) for j, s in enumerate(shards) if s]
    vr = ValueRun(ctx, cfg=CFG, rc_cases=(20000 if quick else 300000))
    vr.run(shard_list)
    by_id = {ids[j]: (lines[j], metas[j]) for j in range(len(lines))}
    by_id["canary"] = (can, {})
    for s, cr in vr.compile_errors:
        name, p, sids, text = s
        if isinstance(cr, str):
            raise RuntimeError(cr)
        if cr.resource_limited:
            ctx.inconclusive += len(sids); continue
        for iid in sids:
            src = emit([by_id[iid][0]]) + SINGLE
            c1 = core.compile_one(CFG, ctx.write("iso/%s.cc" % iid, src), syntax_only=True, flags=["-DAUV_SINGLE_TU"])
            if not c1.ok and not c1.resource_limited:
                if progs.is_documented_ordering_limitation(c1):
                    ctx.bump("excluded_documented_limitation_hit"); continue
                if c1.harness_bug and "static assert" not in c1.err:
                    raise RuntimeError("C14 harness bug: " + c1.first_error() + "\n" + src[-700:])
                ctx.fail("C14: result type/unit of a product, quotient or power is not the algebraic one (%s): %s" % (json.dumps(by_id[iid][1]), c1.first_error()),
                         {"mode": "syntax", "expect": "ok", "src": src, "cfg": list(CFG), "flags": ["-DAUV_SINGLE_TU"]}, detail=by_id[iid][1])
    got = False
    for f in vr.fails:
        if f["inst"] == "canary":
            got = True; continue
        ln, meta = by_id[f["inst"]]
        ctx.fail("C14: %s %s %s" % (f["msg"], json.dumps(f["input"]), json.dumps(meta)),
                 {"mode": "run", "src": emit([ln]) + SINGLE, "cfg": list(CFG), "flags": vr.flags + ["-DAUV_SINGLE_TU"], "args": ["--one", f["inst"], f["input"]["x"], f["input"]["y"]], "env": SAN_ENV, "stdout": "AUVONE ok\n"}, detail=f)
    for d in vr.deaths:
        if d["inst"] == "canary":
            got = True; continue
        if d["inst"] not in by_id:
            raise RuntimeError("C14 value program died outside an instance: %s" % d)
        ln, meta = by_id[d["inst"]]
        x = d["what"].split("x=")[1].split()[0]; y = d["what"].split("y=")[1].strip()
        ctx.fail("C14: crash/UB in library code at x=%s y=%s %s: %s" % (x, y, json.dumps(meta), d.get("stderr", "")[-250:].replace("\n", " | ")),
                 {"mode": "run", "src": emit([ln]) + SINGLE, "cfg": list(CFG), "flags": vr.flags + ["-DAUV_SINGLE_TU"], "args": ["--one", d["inst"], x, y], "env": SAN_ENV, "stdout": "AUVONE ok\n"})
    if not got and not vr.compile_errors:
        raise RuntimeError("C14 canary not reported")
    for s in vr.stats:
        if s["inst"] == "canary":
            continue
        ctx.count(s["evals"]); ctx.add_nontrivial_count(s["nt"])
        if s.get("exhaustive"):
            ctx.bump("exhaustive_instances")
        if len(ctx.cov["samples"]) < 7:
            ctx.sample({"instance": by_id[s["inst"]][1], "evaluations": s["evals"]})
    ctx.cov["pair_instances"] = npairs
    negative(ctx, cases)
