"""C13: Quantity / QuantityPoint are zero-overhead transparent wrappers."""
import json

from hypothesis import strategies as st

from .. import core, hyp, model, progs, reps, units
from ..valrun import SAN_ENV, ValueRun

F5_TEXT = ("unary -/+ and % on Quantity<U,R> with R in {int8_t,uint8_t,int16_t,uint16_t}: the result rep is R although the raw operator "
           "yields int, and its list-initialisation from int is rejected by clang++ (narrowing) while g++ accepts it with a warning")

LAYOUT = '''
template <class U, class R> struct auv_layout {
  typedef au::Quantity<U, R> Q; typedef au::QuantityPoint<U, R> P;
  static_assert(sizeof(Q) == sizeof(R) && alignof(Q) == alignof(R), "Quantity size/alignment");
  static_assert(sizeof(P) == sizeof(R) && alignof(P) == alignof(R), "QuantityPoint size/alignment");
  static_assert(std::is_trivially_copyable<Q>::value && std::is_trivially_copyable<P>::value, "trivially copyable");
  static_assert(std::is_trivially_destructible<Q>::value && std::is_trivially_destructible<P>::value, "trivially destructible");
  static_assert(std::is_standard_layout<Q>::value && std::is_standard_layout<P>::value, "standard layout");
  static_assert(Q{}.in(U{}) == R{}, "default construction yields R{}");
  static constexpr bool ok = true;
};
'''

HEADER = '#include "au/au.hh"\n' + model.includes() + '\n#include "c13.hh"\nusing namespace auv;\n'
VALUE_UNITS = ["au::Meters", "decltype(au::Feet{} / au::Seconds{})", "au::Kilo<au::Grams>", "au::Celsius", "au::Unos",
               "decltype(au::Meters{} * (au::Magnitude<au::Prime<7ull>>{} / au::Magnitude<au::Prime<3ull>>{}))"]


@st.composite
def layout_case(draw):
    return {"t": draw(units.tree(max_leaves=4)), "rep": draw(st.sampled_from(reps.ALL_REPS))}


def emit_values(insts):
    body = []
    for i in insts:
        body.append('  { Wrap13<%s, %s, %s> w("%s", %s); w.run(); }' % (i["rep"], i["unit"], "true" if i["f5excl"] else "false", i["id"], "true" if i.get("canary") else "false"))
    return HEADER + "int main(int argc, char **argv) {\n  g_args = parse_args(argc, argv); install_death_callback();\n" + "\n".join(body) + "\n  return 0;\n}\n"


SINGLE = '\n#ifdef AUV_SINGLE_TU\n#include "auv_main.cc"\nnamespace auv { int rc_run(const char *, size_t, PropFn, void *, uint64_t *) { return 2; } }\n#endif\n'

F5_REPRO = '#include "au/au.hh"\n#include "au/units/meters.hh"\n#include <type_traits>\n' \
           'static_assert(std::is_same<decltype(-au::meters(std::int8_t{1}))::Rep, decltype(-std::int8_t{1})>::value, "unary minus result rep");\n' \
           'static_assert(std::is_same<decltype(au::meters(std::uint16_t{1}) % au::meters(std::uint16_t{1}))::Rep, decltype(std::uint16_t{1} % std::uint16_t{1})>::value, "modulo result rep");\n' \
           'int main() { return (-au::meters(std::int8_t{1})).in(au::meters) == -1 ? 0 : 1; }\n'


def run(ctx):
    ctx.cov["rule"] = ("layout: static_assert of sizeof/alignof/trivially-copyable/-destructible/standard-layout/default-value for Quantity and QuantityPoint over a grid "
                       "(57 library units x 11 reps) and Hypothesis-generated compound units, every TU under rotating (thorough: all six) configurations; values: "
                       "generated programs instantiating harness/c13.hh per (rep, unit): unit(x).in(unit) and unit_pt(x).in(unit) memcmp-equal to x, and for "
                       "+ - % unary+ unary- += -= *= /= q*s s*q q/s == != < <= > >= both the result TYPE (static_assert is_same with the raw operator's type) and the value "
                       "(bit-equal, or both NaN) vs the raw operator; all 256x256 operand pairs for 8-bit reps, all 16-bit values and a stratified (thorough: "
                       "complete 2^32) sweep of float bit patterns for the round trip, special-value grids and rapidcheck draws (specials, raw bit patterns, "
                       "small, near-special) for the rest, raw-UB pairs excluded; the value TU must also be accepted by all six configurations. "
                       "Non-trivial: sub-int rep, or a NaN/inf/-0 operand; distinct by (rep, operand bits).")
    ctx.assumptions += ["NaN results are compared as 'both NaN' (payload selection may depend on operand order)", "ASan+UBSan (g++) non-recoverable"]
    quick = ctx.quick()
    f5_known = ctx.is_known("F5")
    # ---------- known finding reproducer
    if f5_known:
        p = ctx.write("f5/repro.cc", F5_REPRO)
        r_g = core.compile_one(("g++", "c++14"), p, syntax_only=True)
        r_c = core.compile_one(("clang++", "c++14"), p, syntax_only=True)
        if not r_g.ok or not r_c.ok:
            ctx.known_hit("F5", F5_TEXT)
        ctx.exclude("F5", 0)
    # ---------- layout grid + random
    items = []
    meta = []
    k = 0
    for n in model.UNIT_NAMES:
        body = "\n".join('static_assert(auv_layout<au::%s, %s>::ok, "layout");' % (n, r) for r in reps.ALL_REPS)
        cfgs = core.CONFIGS if not quick else [core.CONFIGS[(ctx.seed + k) % 6]]
        for cfg in cfgs:
            items.append((model.ALL_INCLUDES + "\n#include <type_traits>\n" + LAYOUT, body, cfg))
            meta.append({"unit": n, "reps": "all", "grid": True})
        k += 1
    rnd = hyp.collect(ctx, layout_case(), 60 if quick else 400, label="layout")
    for c in rnd:
        t = c["t"]
        units.fix_twins([t])
        if not units.total_exponent_ok(t):
            continue
        body = units.USING + 'static_assert(auv_layout<%s, %s>::ok, "layout");' % (units.render_type(t), c["rep"])
        cfgs = core.CONFIGS if not quick else [core.CONFIGS[(ctx.seed + k) % 6]]
        for cfg in cfgs:
            items.append((model.ALL_INCLUDES + "\n#include <type_traits>\n" + LAYOUT, body, cfg))
            meta.append(c)
        k += 1
    vs = progs.judge_positive(ctx, items, group=10, tag="layout")
    for v, m, it in zip(vs, meta, items):
        n_assert = 6 * (11 if m.get("grid") else 1)
        ctx.count(n_assert)
        if v.ok:
            ctx.nontrivial(("layout", m, core.cfg_name(it[2]) if not quick else ""))
        elif v.inconclusive:
            ctx.inconclusive += 1
        elif progs.is_documented_ordering_limitation(v.cr):
            ctx.bump("excluded_documented_limitation_hit")
        else:
            ctx.fail("C13 layout [%s] %s: %s" % (core.cfg_name(it[2]), json.dumps(m)[:160], v.cr.first_error()),
                     {"mode": "syntax", "expect": "ok", "src": v.src, "cfg": list(it[2])}, detail=m)
    ctx.bump("layout_TUs", len(items))
    ctx.sample({"layout_random": rnd[:2]})
    # ---------- value programs
    insts = []
    for ri, rep in enumerate(reps.ALL_REPS):
        nun = 1 if (quick and reps.BITS.get(rep, 32) == 8) else 2
        for j in range(nun):
            u = VALUE_UNITS[(ri + j * 3 + ctx.seed) % len(VALUE_UNITS)]
            insts.append({"id": "w%d" % len(insts), "rep": rep, "unit": u, "f5excl": f5_known})
    canary = {"id": "canary", "rep": "int16_t", "unit": "au::Meters", "f5excl": True, "canary": True}
    nsh = core.NCPU
    shards = [[] for _ in range(nsh)]
    for kk, i in enumerate(insts):
        shards[kk % nsh].append(i)
    shards[nsh - 1].append(canary)
    shard_list = [("v%02d" % kk, emit_values(s), [i["id"] for i in s]) for kk, s in enumerate(shards) if s]
    vr = ValueRun(ctx, rc_cases=(150000 if quick else 2000000), extra_args=(["--thorough"] if not quick else []))
    vr.run(shard_list)
    by_id = {i["id"]: i for i in insts + [canary]}
    for s, cr in vr.compile_errors:
        name, p, ids, text = s
        if isinstance(cr, str):
            raise RuntimeError(cr)
        if cr.resource_limited:
            ctx.inconclusive += 1
            continue
        # isolate per instance
        for iid in ids:
            src = emit_values([by_id[iid]]) + SINGLE
            c1 = core.compile_one(vr.cfg, ctx.write("iso/%s.cc" % iid, src), syntax_only=True, flags=["-DAUV_SINGLE_TU"])
            if not c1.ok and not c1.resource_limited:
                if c1.harness_bug and "static assert" not in c1.err:
                    raise RuntimeError("C13 harness bug: " + c1.first_error())
                ctx.fail("C13 operators on %s: does not compile / result type differs from raw operator: %s" % (by_id[iid]["rep"], c1.first_error()),
                         {"mode": "syntax", "expect": "ok", "src": src, "cfg": list(vr.cfg), "flags": ["-DAUV_SINGLE_TU"]}, detail=by_id[iid])
    # all six configurations must accept the same operator statements ("on every supported compiler")
    six = []
    for name, text, ids in shard_list:
        for cfg in (core.CONFIGS if not quick else [core.CONFIGS[(ctx.seed + len(six)) % 6], core.CONFIGS[(ctx.seed + len(six) + 3) % 6]]):
            six.append((name, text, ids, cfg))

    def syn(x):
        name, text, ids, cfg = x
        return core.compile_one(cfg, ctx.write("six/%s.cc" % name, text), syntax_only=True)
    for x, cr in zip(six, core.pmap(syn, six)):
        ctx.count(1)
        if not cr.ok and not cr.resource_limited:
            name, text, ids, cfg = x
            if cr.harness_bug and "static assert" not in cr.err:
                raise RuntimeError("C13 harness bug under %s: %s" % (core.cfg_name(cfg), cr.first_error()))
            for iid in ids:
                src = emit_values([by_id[iid]]) + SINGLE
                c1 = core.compile_one(cfg, ctx.write("six_iso/%s.cc" % iid, src), syntax_only=True, flags=["-DAUV_SINGLE_TU"])
                if not c1.ok and not c1.resource_limited:
                    ctx.fail("C13 operators on %s rejected under %s (accepted elsewhere?): %s" % (by_id[iid]["rep"], core.cfg_name(cfg), c1.first_error()),
                             {"mode": "syntax", "expect": "ok", "src": src, "cfg": list(cfg), "flags": ["-DAUV_SINGLE_TU"]}, detail=by_id[iid])
    # ... and must BUILD and run them without optimisation (an odr-used static constexpr member without a namespace-scope definition only fails at link time,
    # before C++17, when nothing is inlined): one shard per configuration, complete single-TU program at -O0, one operand pair executed
    o0 = []
    o0_cfgs = core.CONFIGS if not quick else [("g++", "c++14"), ("clang++", "c++14"), core.CONFIGS[[1, 2, 4, 5][ctx.seed % 4]]]
    for j, cfg in enumerate(o0_cfgs):
        name, text, ids = shard_list[(ctx.seed + j) % len(shard_list)]
        ids = [i for i in ids if i != "canary"]
        if ids:
            o0.append((cfg, emit_values([by_id[i] for i in ids]) + SINGLE, ids[0]))

    def build_o0(x):
        cfg, src, iid = x
        p = ctx.write("o0/%s_%s.cc" % (cfg[0][0] + cfg[1][-2:], iid), src)
        cr = core.compile_one(cfg, p, p[:-3] + ".exe", flags=["-O0", "-DAUV_SINGLE_TU"], timeout=900)
        if not cr.ok:
            return cr, None
        return cr, core.run_cmd([p[:-3] + ".exe", "--one", iid, "3", "2"], timeout=120)
    for (cfg, src, iid), (cr, rr) in zip(o0, core.pmap(build_o0, o0)):
        ctx.count(1)
        if cr.resource_limited:
            ctx.inconclusive += 1
        elif not cr.ok:
            ctx.fail("C13: the operator / round-trip program does not build without optimisation under %s: %s" % (core.cfg_name(cfg), cr.first_error()),
                     {"mode": "build", "expect": "ok", "src": src, "cfg": list(cfg), "flags": ["-O0", "-DAUV_SINGLE_TU"]})
        elif rr[0] != 0 or "AUVONE ok" not in rr[1]:
            ctx.fail("C13: the operator / round-trip program built at -O0 under %s fails on operands (3, 2): %s" % (core.cfg_name(cfg), (rr[1] + rr[2])[-300:]),
                     {"mode": "run", "src": src, "cfg": list(cfg), "flags": ["-O0", "-DAUV_SINGLE_TU"], "args": ["--one", iid, "3", "2"], "stdout": "AUVONE ok\n"})
        else:
            ctx.nontrivial(("o0", core.cfg_name(cfg), iid))
    got_canary = False
    for f in vr.fails:
        if f["inst"] == "canary":
            got_canary = True
            continue
        i = by_id[f["inst"]]
        inp = f["input"]
        ctx.fail("C13: %s %s" % (f["msg"], json.dumps(inp)),
                 {"mode": "run", "src": emit_values([i]) + SINGLE, "cfg": list(vr.cfg), "flags": vr.flags + ["-DAUV_SINGLE_TU"],
                  "args": ["--one", i["id"], inp["x"], inp["y"]], "env": SAN_ENV, "stdout": "AUVONE ok\n"}, detail=f)
    for d in vr.deaths:
        if d["inst"] == "canary":
            continue
        i = by_id.get(d["inst"])
        if i is None:
            raise RuntimeError("C13 value program died outside an instance: %s" % d)
        w = d["what"]
        xs = w.split("x=")[-1].split()
        x = xs[0]
        y = w.split("y=")[-1].strip() if "y=" in w else x
        ctx.fail("C13: sanitizer/crash in library code during %s: %s" % (w, d.get("stderr", "")[-300:].replace("\n", " | ")),
                 {"mode": "run", "src": emit_values([i]) + SINGLE, "cfg": list(vr.cfg), "flags": vr.flags + ["-DAUV_SINGLE_TU"],
                  "args": ["--one", i["id"], x, y], "env": SAN_ENV, "stdout": "AUVONE ok\n"}, detail=d)
    if not got_canary and not vr.compile_errors:
        raise RuntimeError("C13 canary was not reported (vacuous loop?)")
    n_ex = 0
    for s in vr.stats:
        if s["inst"] == "canary":
            continue
        ctx.count(s["evals"])
        ctx.add_nontrivial_count(s["nt"])
        n_ex += 1 if s.get("exhaustive") else 0
        ctx.bump("operand_pairs", s["hist"].get("pairs", 0))
        ctx.bump("special_float_pairs", s["hist"].get("special_float_pairs", 0))
        if s["hist"].get("f5_excluded"):
            ctx.exclude("F5", 1)
        if len(ctx.cov["samples"]) < 6:
            ctx.sample({"rep": by_id[s["inst"]]["rep"], "unit": by_id[s["inst"]]["unit"], "evaluations": s["evals"], "exhaustive_pairs": s.get("exhaustive")})
    ctx.cov["exhaustive_instances"] = n_ex
