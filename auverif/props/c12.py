"""C12: primality / factoring / modular helpers (run time, exhaustive + adversarial + rapidcheck) and
mag<N>() canonical factorisation (compile time, Hypothesis-generated numbers vs sympy)."""
import os

from hypothesis import strategies as st

from .. import core, hyp, model, reps
from ..valrun import SAN_ENV, SAN_FLAGS, build_common, parse_output

CFG = ("g++", "c++17")


def runtime_part(ctx):
    quick = ctx.quick()
    jobs, one, objs = build_common(ctx, CFG, SAN_FLAGS)
    futs = [core.pool().submit(one, j) for j in jobs]
    src = os.path.join(core.HARNESS, "c12_main.cc")
    exe = ctx.path("c12_main.exe")
    flags = [f for f in SAN_FLAGS if f != "-O1"] + ["-O2"]
    cr = core.compile_one(CFG, src, exe + ".o", flags=flags + ["-c"])
    for f in futs:
        f.result()
    if not cr.ok:
        if cr.harness_bug:
            raise RuntimeError("c12 harness does not compile: " + cr.err[-1500:])
        ctx.fail("C12: utility headers no longer compile with the run-time harness: " + cr.first_error(),
                 {"mode": "run", "src": open(src).read() + SINGLE, "cfg": list(CFG), "flags": ["-O1", "-DAUV_SINGLE_TU"], "args": ["--one", "n", "97"], "stdout": "AUVONE ok\n"})
        return
    rc, out, err, secs, to = core.run_cmd([CFG[0]] + [f for f in flags if f.startswith("-fsanitize") or f.startswith("-O")] + [exe + ".o"] + objs + ["-lrapidcheck", "-o", exe])
    if rc != 0:
        raise RuntimeError("c12 link failed: " + err[-1000:])
    nsh = core.NCPU
    lim = 26 if quick else 30
    env = dict(os.environ); env.update(SAN_ENV)
    env["RC_PARAMS"] = "seed=%d max_success=%d max_size=100" % (ctx.seed * 7919 + 12, 200000 if quick else 3000000)

    def run_shard(k):
        args = [exe, "--shard", str(k), str(nsh), "--lim-log2", str(lim)] + ([] if quick else ["--thorough"])
        if k != 0:
            args += ["--skip", "modular"]
        hang = 600 if quick else 7000
        r = core.run_cmd(["timeout", "-s", "ABRT", "-k", "30", str(hang)] + args, timeout=hang + 120, env=env)
        if r[3] >= hang - 1:
            return (r[0], r[1], r[2] + "\nAUVHANG", r[3], False)
        return r
    results = core.pmap(run_shard, range(nsh))
    tot = {}
    for k, (rc, out, err, secs, to) in enumerate(results):
        stats, fails, deaths, other = parse_output(out)
        if to:
            ctx.inconclusive += 1
            continue
        for f in fails:
            inp = f["input"]
            if inp.get("kind") == "mod":
                args = ["--one", "mod", inp["a"], inp["b"], inp["n"], inp["e"]]
            else:
                args = ["--one", "n", inp["n"]]
            ctx.fail("C12: %s input=%s" % (f["msg"], inp), replay_for(args), detail=f)
        if rc != 0 and not fails:
            d = deaths[-1] if deaths else {"what": "rc=%d %s" % (rc, err[-400:])}
            w = d.get("what", "")
            if w.startswith("n="):
                args = ["--one", "n", w[2:]]
            elif w.startswith("a="):
                parts = dict(x.split("=") for x in w.split())
                args = ["--one", "mod", parts["a"], parts["b"], parts["n"], parts["e"]]
            else:
                raise RuntimeError("c12 program died outside a case: %s" % d)
            rp = replay_for(args)
            if "AUVHANG" in err:
                rp["timeout"] = 120; rp["timeout_is_failure"] = True
                ctx.fail("C12: library helper does not terminate (no result after %d s; a call normally takes microseconds) at %s" % (600 if quick else 7000, w), rp, detail=d)
            else:
                ctx.fail("C12: sanitizer/crash at %s: %s" % (w, err[-300:].replace("\n", " | ")), rp, detail=d)
        for s in stats:
            t = tot.setdefault(s["inst"], {"evals": 0, "nt": 0, "hist": {}, "samples": s["samples"]})
            t["evals"] += s["evals"]; t["nt"] += s["nt"]
            for kk, v in s["hist"].items():
                if isinstance(v, int) and kk != "lim_log2":
                    t["hist"][kk] = t["hist"].get(kk, 0) + v
                else:
                    t["hist"][kk] = v
    for inst, t in tot.items():
        ctx.count(t["evals"]); ctx.add_nontrivial_count(t["nt"])
        ctx.hist[inst] = dict(t["hist"], evaluations=t["evals"], nontrivial=t["nt"])
        ctx.sample({"set": inst, "what": t["samples"][0] if t["samples"] else "", "evaluations": t["evals"]})
    ctx.cov["exhaustive_below_2^k"] = lim


SINGLE = '\n#ifdef AUV_SINGLE_TU\n#include "auv_main.cc"\nnamespace auv { int rc_run(const char *, size_t, PropFn, void *, uint64_t *) { return 2; } }\n#endif\n'


def unsigned_wrap_build(ctx):
    """second build (clang++): unsigned-integer-overflow instrumentation restricted to au/utility/mod.hh; modular + adversarial parts only"""
    src = os.path.join(core.HARNESS, "c12_main.cc")
    exe = ctx.path("uio/c12_uio.exe")
    flags = ["-O1", "-fsanitize=unsigned-integer-overflow", "-fno-sanitize-recover=all", "-fsanitize-ignorelist=" + os.path.join(core.HARNESS, "c12_uio_ignorelist.txt"), "-DAUV_SINGLE_TU"]
    text = open(src).read() + SINGLE.replace("return 2; }", "(void)0; return 2; }")
    p = ctx.write("uio/c12_uio.cc", text)
    cr = core.compile_one(("clang++", "c++17"), p, exe, flags=flags, timeout=900)
    if not cr.ok:
        if cr.harness_bug:
            raise RuntimeError("c12 unsigned-wrap build: " + cr.first_error())
        ctx.bump("unsigned_wrap_build_failed")
        return
    env = dict(os.environ); env["UBSAN_OPTIONS"] = "halt_on_error=1:abort_on_error=1:print_stacktrace=0"

    def one(k):
        return core.run_cmd(["timeout", "-s", "ABRT", "600", exe, "--shard", str(k), str(core.NCPU), "--only", "adversarial"] + ([] if ctx.quick() else ["--thorough"]), timeout=800, env=env)
    res = core.pmap(one, range(core.NCPU)) + [core.run_cmd(["timeout", "-s", "ABRT", "600", exe, "--only", "modular"], timeout=800, env=env)]
    n = 0
    for rc, out, err, secs, to in res:
        stats, fails, deaths, other = parse_output(out)
        n += sum(s_["evals"] for s_ in stats)
        if rc != 0 and "unsigned integer overflow" in err and "mod.hh" in err:
            d = deaths[-1] if deaths else {"what": ""}
            w = d.get("what", "")
            if w.startswith("a="):
                parts = dict(x.split("=") for x in w.split())
                args = ["--one", "mod", parts["a"], parts["b"], parts["n"], parts["e"]]
            elif w.startswith("n="):
                args = ["--one", "n", w[2:]]
            else:
                args = ["--one", "n", "97"]
            line = [l for l in err.splitlines() if "runtime error" in l][:1]
            ctx.fail("C12: intermediate unsigned wrap-around inside a modular helper (%s) at %s" % (line[0][-160:] if line else "", w),
                     {"mode": "run", "src": text, "cfg": ["clang++", "c++17"], "flags": flags, "args": args, "stdout": "AUVONE ok\n", "env": {"UBSAN_OPTIONS": env["UBSAN_OPTIONS"]}})
    ctx.count(n)
    ctx.hist["unsigned_wrap_build"] = {"evaluations": n, "instrumented": "au/utility/mod.hh only (clang -fsanitize=unsigned-integer-overflow with an ignore list)"}


def replay_for(args):
    src = open(os.path.join(core.HARNESS, "c12_main.cc")).read() + SINGLE
    return {"mode": "run", "src": src, "cfg": list(CFG), "flags": ["-O1", "-DAUV_SINGLE_TU", "-fsanitize=undefined", "-fno-sanitize-recover=all"],
            "args": args, "stdout": "AUVONE ok\n", "env": SAN_ENV, "timeout": 120, "timeout_is_failure": True}


# ---- compile-time part -----------------------------------------------------------------------

MID_PRIMES = [541, 547, 1009, 65521, 65537, 1048573, 1048583, 999983]
HUGE_PRIMES = [2147483647, 4294967291, 4294967311, 1099511627791, 2305843009213693951, 9223372036854775783, 18446744073709551557]


import sympy as _sympy
RHO_PRIMES = [int(p) for p in _sympy.primerange(542, 6000)] + [65521, 65537, 104729, 1048573]   # beyond the trial-division table (first 100 primes)


@st.composite
def number(draw):
    """n < 2^64 with at most one prime factor above 2^20 (keeps Pollard rho inside constexpr budgets)"""
    kind = draw(st.integers(0, 7))
    if kind >= 6:
        # two to four prime factors that only Pollard's rho can find (all above 541), optionally with small ones: whichever of them rho meets first,
        # the factorisation must still come out canonical
        n = 1
        for _ in range(draw(st.integers(2, 4))):
            p = draw(st.sampled_from(RHO_PRIMES))
            if n * p < (1 << 50):
                n *= p
        if kind == 7:
            n *= draw(st.sampled_from([2, 3, 4, 7, 30, 541]))
        return n
    n = 1
    for _ in range(draw(st.integers(0, 5))):
        p = draw(st.sampled_from(reps.SMALL_PRIMES[:30] + MID_PRIMES))
        e = draw(st.integers(1, 3))
        if n * p ** e < (1 << 64):
            n *= p ** e
    if kind == 0:
        p = draw(st.sampled_from(HUGE_PRIMES))
        if n * p < (1 << 64):
            n *= p
    elif kind == 1:
        n = draw(st.integers(1, 100000))
    elif kind == 2:
        n = draw(st.sampled_from(HUGE_PRIMES))
    return n


@st.composite
def ct_case(draw):
    a = draw(number())
    b = draw(number())
    if a * b >= (1 << 64):
        b = draw(st.integers(1, max(1, ((1 << 64) - 1) // a)).filter(lambda v: v < 4096)) if a < (1 << 52) else 1
    return {"a": a, "b": b}


def ct_src(c):
    a, b = c["a"], c["b"]
    fa = model.mag_of(a * b)
    return ('#include "au/magnitude.hh"\n#include <type_traits>\n'
            'static_assert(au::mag<%dull>() * au::mag<%dull>() == au::mag<%dull>(), "product of factorisations");\n'
            'static_assert(std::is_same<decltype(au::mag<%dull>()), %s>::value, "canonical factorisation");\n'
            'static_assert(std::is_same<decltype(au::mag<%dull>()), %s>::value, "canonical factorisation (a)");\n'
            'int main() {}\n' % (a, b, a * b, a * b, model.spell_mag(fa), a, model.spell_mag(model.mag_of(a))))


def compile_time_part(ctx):
    n_ex = 6 if ctx.quick() else 40
    state = {"i": 0}

    def judge(cases):
        def one(ic):
            i, c = ic
            cfg = core.CONFIGS[(ctx.seed + i) % 6]
            src = ct_src(c)
            p = ctx.write("ct/c%d_%s.cc" % (i, core.sha(src)), src)
            cr = core.compile_one(cfg, p, syntax_only=True, timeout=300)
            ctx.count(3)
            if cr.ok:
                if len(reps.factorint(c["a"] * c["b"])) >= 2:
                    ctx.nontrivial(("ct", c["a"], c["b"]))
                return None
            if cr.resource_limited:
                ctx.inconclusive += 1
                ctx.bump("ct_resource_limited")
                return None
            if cr.harness_bug:
                raise RuntimeError("C12 compile-time harness bug: " + cr.first_error())
            return {"what": "C12: mag<%d>()*mag<%d>() vs mag<%d>() / canonical factorisation: %s" % (c["a"], c["b"], c["a"] * c["b"], cr.first_error()),
                    "replay": {"mode": "syntax", "expect": "ok", "src": src, "cfg": list(cfg)}}
        base = state["i"]
        state["i"] += len(cases)
        return core.pmap(one, [(base + k, c) for k, c in enumerate(cases)])
    cache = hyp.run_batches(ctx, ct_case(), judge, n_ex, 16, label="ct")
    ks = [k for k, (s_, v) in cache.items() if s_ == "judged"]
    for k in ks[:3]:
        ctx.sample({"compile_time": __import__("json").loads(k)})
    ctx.bump("compile_time_cases", len(ks))


def run(ctx):
    ctx.cov["rule"] = ("(a) every n below 2^26 (2^30 thorough) vs an independent segmented sieve: is_prime, miller_rabin(2), strong_lucas, baillie_psw, "
                       "find_prime_factor; (b) adversarial 64-bit inputs selected by independent code (strong base-2 / strong Lucas pseudoprime families, "
                       "Carmichael numbers, prime squares, twin products, semiprimes near 2^16/2^31/2^32, neighbours of every 2^k, 2^64-d, k*2^t+-1 for every t < 64 and odd k < 256) vs deterministic "
                       "7-base Miller-Rabin; (c) add/sub/mul/half/pow_mod under documented preconditions on an enumerated edge grid + rapidcheck draws "
                       "(moduli near 2^63/2^64/2^32) vs unsigned __int128; (d) Hypothesis-generated a,b: static_assert(mag<a>()*mag<b>()==mag<a*b>()) and "
                       "is_same<decltype(mag<n>()), factorisation spelled from sympy>. Non-trivial: primes and composites passing one half of "
                       "Baillie-PSW (exhaustive), all adversarial inputs (distinct), modular triples whose true product exceeds 2^64 (distinct), "
                       "compile-time cases with >=2 distinct prime factors.")
    ctx.assumptions += ["7-base Miller-Rabin {2,325,9375,28178,450775,9780504,1795265022} is deterministic below 2^64",
                        "compile-time cases that stop on a constexpr resource limit are inconclusive"]
    runtime_part(ctx)
    unsigned_wrap_build(ctx)
    compile_time_part(ctx)
    # coverage-guided campaign (structure-aware decode, oracle inside the target); short in quick, long in thorough
    from .. import fuzzrun
    import struct
    seeds = [bytes([0]) + struct.pack("<Q", v) + bytes([0]) for v in (18446744073709551557, 3825123056546413051, 1373653, 4294967291 * 4294967291 % (1 << 64))]
    res, err = fuzzrun.campaign(ctx, "c12_fuzz", 150000 if ctx.quick() else 20000000, 64, seeds=seeds)
    if res is None:
        if core.HARNESS_BUG_RE.search(err):
            raise RuntimeError("c12 fuzz target does not build: " + err[-800:])
        ctx.bump("fuzz_target_build_failed")
    else:
        fuzzrun.report(ctx, "C12", "c12_fuzz", (res, ""), "library helper disagrees with the independent oracle")
