"""C06: the implicit-conversion predicate is total and as documented (program level + value consequence)."""
import json
import os
from fractions import Fraction as F

from hypothesis import strategies as st

from .. import core, hyp, progs, reps
from ..valrun import SAN_ENV

REPS10 = [r for r in reps.ALL_REPS if r != "long double"]
CFG_RUN = ("g++", "c++17")

PRELUDE = r'''#include "au/au.hh"
#include "au/units/meters.hh"
#include "au/units/seconds.hh"
#include <cstdint>
#include <cstdio>
#include <type_traits>
#include <utility>
template <class A, class B, class = void> struct auv_has_common : std::false_type {};
template <class A, class B> struct auv_has_common<A, B, au::stdx::void_t<typename std::common_type<A, B>::type>> : std::true_type {};
typedef __int128 auv_i128;
// value consequence of a permitted integral conversion: exact multiplication by k for |x| <= 2147
template <class Q1, class Q2, class U1, class U2>
int auv_values(int case_id, unsigned long long k) {
  typedef typename Q1::Rep R1; typedef typename Q2::Rep R2;
  long evals = 0, fails = 0; long firstx = 0;
  for (long x = -2147; x <= 2147; ++x) {
    if (auv_i128(x) < auv_i128(std::numeric_limits<R1>::lowest()) || auv_i128(x) > auv_i128(std::numeric_limits<R1>::max())) continue;
    if (auv_i128(x) < auv_i128(std::numeric_limits<R2>::lowest()) || auv_i128(x) > auv_i128(std::numeric_limits<R2>::max())) continue;
    Q2 q = au::make_quantity<U1>(static_cast<R1>(x));     // the implicit conversion under test
    Q2 q3 = au::make_quantity<U2>(R2{0}); q3 = au::make_quantity<U1>(static_cast<R1>(x));
    auv_i128 e = auv_i128(x) * auv_i128(k);
    ++evals;
    if (auv_i128(q.in(U2{})) != e || auv_i128(q3.in(U2{})) != e) { if (!fails) firstx = x; ++fails; }
  }
  std::printf("AUVC06 case=%d evals=%ld fails=%ld firstx=%ld\n", case_id, evals, fails, firstx);
  return fails ? 1 : 0;
}
'''


def k_grid(r2):
    m = reps.rmax(r2) if reps.is_int(r2) else 2 ** 64
    thr = m // 2147
    vals = {1, 2, 3, 10, 12, 1000, thr - 1, thr, thr + 1, m, m + 1, 2 ** 64, 2 ** 63, 10 ** 30, 10 ** 12, 127, 255, 256, 15, 16, 30, 31, 65535, 65536,
            1000000, 1000001, 4294967, 4294968, 4294967295, 4294967296}
    if r2 == "float":      # "R2 floating point" permits every ratio: also those beyond max(float)/2147 ~ 1.58e35 and beyond max(float) itself
        vals |= {10 ** 35, 10 ** 36, 2 ** 117, 2 ** 127, 2 ** 128, 10 ** 38, 10 ** 39, 10 ** 45}
    elif r2 == "double":
        vals |= {10 ** 36, 10 ** 39, 10 ** 304, 10 ** 305, 2 ** 1013, 2 ** 1023, 2 ** 1024, 10 ** 308, 10 ** 309}
    return sorted(v for v in vals if v >= 1)


@st.composite
def case(draw):
    r1 = draw(st.sampled_from(REPS10))
    r2 = draw(st.sampled_from(REPS10))
    kind = draw(st.sampled_from(["k", "k", "k", "inv", "pq", "rand", "dim"]))
    if kind in ("k", "dim"):
        num, den = draw(st.sampled_from(k_grid(r2))), 1
    elif kind == "inv":
        num, den = 1, draw(st.sampled_from([2, 3, 10, 1000, 2147, 2148, 65536, 10 ** 30]))
    elif kind == "pq":
        num, den = draw(st.sampled_from([(3, 2), (1000, 3), (5, 9), (127, 5000), (2147483648, 3), (7, 128)]))
    else:
        num, den = draw(reps.coprime_pair(2 ** 64))
    return {"r1": r1, "r2": r2, "num": num, "den": den, "dim": kind == "dim", "point": draw(st.booleans()), "probe": draw(st.integers(0, 9)) == 0}


def model_M(c):
    if c["dim"]:
        return False
    return reps.implicit_ok(c["r1"], c["r2"], F(c["num"], c["den"]))


def model_M_point(c):
    if c["dim"]:
        return False
    # QuantityPoint convertibility asks about (Diff + ZERO-displacement): the sum has the promoted rep
    r1p = reps.promoted(c["r1"]) if reps.is_int(c["r1"]) else c["r1"]
    return reps.implicit_ok(r1p, c["r2"], F(c["num"], c["den"]))


def body_for(c, idx):
    M = model_M(c)
    base1 = "au::Seconds" if c["dim"] else "au::Meters"
    mag = reps.mag_expr(c["num"], c["den"])
    b = []
    b.append("using U2 = au::Meters; using U1 = decltype(%s{} * %s);" % (base1, mag))
    b.append("using Q1 = au::Quantity<U1, %s>; using Q2 = au::Quantity<U2, %s>;" % (c["r1"], c["r2"]))
    tf = "true" if M else "false"
    b.append('static_assert(std::is_convertible<Q1, Q2>::value == %s, "is_convertible");' % tf)
    b.append('static_assert(std::is_constructible<Q2, Q1>::value == %s, "is_constructible");' % tf)
    b.append('static_assert(std::is_assignable<Q2 &, Q1>::value == %s, "is_assignable");' % tf)
    # a ratio beyond the largest finite value of a floating R2 is permitted by the predicate, but PERFORMING that conversion is a (deliberate) compile error
    # ("Value outside range of destination type"); g++ instantiates the constexpr constructor body even inside sizeof, so the selecting probe is only asked
    # where the conversion itself can be performed
    FMAX = {"float": (2 ** 24 - 1) * 2 ** 104, "double": (2 ** 53 - 1) * 2 ** 971}
    if not (c["r2"] in FMAX and F(c["num"], c["den"]) > FMAX[c["r2"]]):
        b.append("int auv_f(Q2); char auv_f(...);")
        b.append('static_assert(sizeof(auv_f(std::declval<Q1>())) == (%s ? sizeof(int) : sizeof(char)), "overload resolution");' % tf)
    b.append('static_assert(auv_has_common<Q1, Q2>::value == %s, "std::common_type detection");' % ("false" if c["dim"] else "true"))
    if c["point"]:
        mp = "true" if model_M_point(c) else "false"
        b.append("using P1 = au::QuantityPoint<U1, %s>; using P2 = au::QuantityPoint<U2, %s>;" % (c["r1"], c["r2"]))
        b.append('static_assert(std::is_convertible<P1, P2>::value == %s, "point is_convertible");' % mp)
        b.append('static_assert(std::is_constructible<P2, P1>::value == %s, "point is_constructible");' % mp)
    values = M and reps.is_int(c["r1"]) and reps.is_int(c["r2"]) and c["den"] == 1 and not c["dim"]
    if values:
        b.append("int run() { return auv_values<Q1, Q2, U1, U2>(%d, %dull); }" % (idx, c["num"]))
        if reps.implicit_ok_same_rep(c["r1"], F(c["num"])):
            b.append("auto same_rep_as(Q1 q) { return q.as(U2{}); }\nauto same_rep_in(Q1 q) { return q.in(U2{}); }")
    else:
        b.append("int run() { return 0; }")
    return "\n".join(b), values


def program(cases_with_idx):
    bodies, calls = [], []
    for j, (c, idx) in enumerate(cases_with_idx):
        body, values = body_for(c, idx)
        bodies.append(body)
        calls.append("  rc |= auv_case_%d::run();" % j)
    src = progs.tu(PRELUDE, bodies, main=False)
    src += "\n#line 1\nint main() {\n  int rc = 0;\n" + "\n".join(calls) + "\n  return rc;\n}\n"
    return src


def run(ctx):
    ctx.cov["rule"] = ("cases (R1,R2 in the 10 standard reps, U1/U2 = k, 1/k, p/q or a different dimension) drawn by Hypothesis from a per-R2 grid straddling "
                       "floor(max(R2)/2147), max(R2), max(R2)+1, 2^63, 2^64, 10^12, 10^30, small divisors, plus random smooth coprime pairs; each case is a block of "
                       "static_asserts that must COMPILE whatever the answer (totality) and must answer as the model predicts: is_convertible, is_constructible, "
                       "is_assignable, an overload-resolution probe (int f(Q2); char f(...)), common_type detection, and the same for QuantityPoint pairs of equal "
                       "origin; for every permitted integral case the generated program (UBSan) converts every x in [-2147,2147] within both reps implicitly "
                       "(construction and assignment) and compares with x*k in 128 bits; unit-only .as/.in are compiled where the same-rep policy permits them "
                       "and probed negatively (with a double twin) where it must refuse. Non-trivial: k != 1 and within one grid step of a threshold, or k not "
                       "representable in R2, or non-integer ratio, or dimension mismatch, or a point pair; distinct by canonical JSON of the case.")
    ctx.assumptions += ["model: M = dims equal and (R2 floating or (R1 integral and k integer and 2147k <= max(R2)) or (k == 1 and both integral))",
                        "QuantityPoint model: same predicate with R1 replaced by its promoted type (the implementation asks about Diff + zero displacement)"]
    quick = ctx.quick()
    counter = {"n": 0}

    def judge(cases):
        base = counter["n"]
        counter["n"] += len(cases)
        group = 8
        batches = [list(range(k, min(k + group, len(cases)))) for k in range(0, len(cases), group)]
        out = [None] * len(cases)

        def do_batch(bi):
            idxs = batches[bi]
            cfg = CFG_RUN
            src = program([(cases[i], base + i) for i in idxs])
            p = ctx.write("c06/b_%s.cc" % core.sha(src), src)
            exe = p[:-3] + ".exe"
            cr = core.compile_one(cfg, p, exe, flags=["-O1", "-fsanitize=undefined", "-fno-sanitize-recover=all"], timeout=900)
            # totality / trait answers under another configuration as well (syntax only)
            cfg2 = core.CONFIGS[(ctx.seed + base + bi) % 6]
            cr2 = core.compile_one(cfg2, p, syntax_only=True, timeout=900)
            res = {}
            if cr.ok and cr2.ok:
                env = dict(os.environ); env.update(SAN_ENV)
                rc, o, e, secs, to = core.run_cmd([exe], timeout=300, env=env)
                lines = {}
                for ln in o.splitlines():
                    if ln.startswith("AUVC06 "):
                        kv = dict(x.split("=") for x in ln.split()[1:])
                        lines[int(kv["case"])] = kv
                for i in idxs:
                    kv = lines.get(base + i)
                    if kv:
                        ctx.count(int(kv["evals"]))
                        if int(kv["fails"]):
                            res[i] = ("value", "implicit conversion result != x*k first at x=%s (%s fails)" % (kv["firstx"], kv["fails"]), src, cfg)
                if rc != 0 and not any(i in res for i in idxs):
                    res[idxs[0]] = ("crash", "generated program failed rc=%d: %s" % (rc, (o + e)[-400:]), src, cfg)
                return res
            # isolate
            for i in idxs:
                s1 = program([(cases[i], base + i)])
                for cfg in (CFG_RUN, cfg2):
                    c1 = core.compile_one(cfg, ctx.write("c06/s_%s.cc" % core.sha(s1), s1), syntax_only=True, timeout=600)
                    if c1.ok:
                        continue
                    if c1.resource_limited:
                        res[i] = ("inconclusive", "", s1, cfg)
                    elif c1.harness_bug and "static assert" not in c1.err and "static_assert" not in c1.err:
                        raise RuntimeError("C06 harness bug: %s\n%s" % (c1.first_error(), s1[-900:]))
                    else:
                        res[i] = ("compile", c1.first_error(), s1, cfg)
                    break
            return res
        for bi, res in enumerate(core.pmap(do_batch, range(len(batches)))):
            for i in batches[bi]:
                c = cases[i]
                ctx.count(7 if c["point"] else 5)
                ctx.bump("M_true" if model_M(c) else "M_false")
                r = res.get(i)
                nt = c["dim"] or c["point"] or c["den"] != 1 or (c["num"] != 1)
                if r is None:
                    if nt:
                        ctx.nontrivial(c)
                    continue
                kind, msg, src, cfg = r
                if kind == "inconclusive":
                    ctx.inconclusive += 1
                    continue
                what = "C06 %s->%s ratio %d/%d%s [%s]: %s" % (c["r1"], c["r2"], c["num"], c["den"], " (dimension mismatch)" if c["dim"] else "", core.cfg_name(cfg), msg)
                if kind == "compile":
                    out[i] = {"what": what, "replay": {"mode": "syntax", "expect": "ok", "src": src, "cfg": list(cfg)}}
                else:
                    out[i] = {"what": what, "replay": {"mode": "run", "src": src, "cfg": list(cfg), "flags": ["-O1", "-fsanitize=undefined", "-fno-sanitize-recover=all"], "env": SAN_ENV}}
        return out

    # enumerated grid first: every (R1,R2) x thresholds of R2
    grid = []
    for r1 in REPS10:
        for r2 in REPS10:
            ks = k_grid(r2)
            sel = ks if not quick else [k for j, k in enumerate(ks) if (j + hash((r1, r2)) + ctx.seed) % 4 == 0 or k in (1,)]
            for k in sel:
                grid.append({"r1": r1, "r2": r2, "num": k, "den": 1, "dim": False, "point": (k % 2 == 0), "probe": False})
            grid.append({"r1": r1, "r2": r2, "num": 1, "den": 1000, "dim": False, "point": False, "probe": False})
            grid.append({"r1": r1, "r2": r2, "num": 1, "den": 1, "dim": True, "point": True, "probe": False})
    ctx.cov["grid_cases"] = len(grid)
    for c, v in zip(grid, judge(grid)):
        if v is not None:
            ctx.fail(v["what"], v["replay"], detail={"case": c})
    cache = hyp.run_batches(ctx, case(), judge, 10 if quick else 80, 64, label="c06")
    judged = [json.loads(k) for k, (s, v) in cache.items() if s == "judged"]
    ctx.cov["random_cases"] = len(judged)
    for c in judged[:4]:
        ctx.sample(c)
    ctx.sample(grid[len(grid) // 2])
    # negative probes: unit-only .as(u)/.in(u) must be refused when the same-rep policy says no
    neg_src = [c for c in (grid + judged) if not c["dim"] and reps.is_int(c["r1"]) and not reps.implicit_ok_same_rep(c["r1"], F(c["num"], c["den"]))]
    items, meta = [], []
    step = max(1, len(neg_src) // (24 if quick else 200))
    for j, c in enumerate(neg_src[::step]):
        mag = reps.mag_expr(c["num"], c["den"])
        pre = PRELUDE
        form = ["q.as(U2{})", "q.in(U2{})"][j % 2]
        bad = "using U2 = au::Meters; using U1 = decltype(au::Meters{} * %s);\nauto f(au::Quantity<U1, %s> q) { return %s; }" % (mag, c["r1"], form)
        twin = "using U2 = au::Meters; using U1 = decltype(au::Meters{} * %s);\nauto f(au::Quantity<U1, %s> q) { return %s; }" % (
            reps.mag_expr(c["num"], c["den"]) if c["num"] < 10 ** 30 and c["den"] < 10 ** 30 else reps.mag_expr(1000, 1), "double", form)
        items.append((pre, bad, twin, core.CONFIGS[(ctx.seed + j) % 6]))
        meta.append((c, form))
    for (c, form), v in zip(meta, progs.judge_negative(ctx, items, tag="c06neg")):
        ctx.count(1)
        if v["status"] == "ok":
            ctx.nontrivial(("neg", c["r1"], c["num"], c["den"], form))
        elif v["status"] == "accepted":
            ctx.fail("C06: %s compiles for rep %s and ratio %d/%d although the policy must refuse it" % (form, c["r1"], c["num"], c["den"]),
                     {"mode": "syntax", "expect": "fail", "src": v["bad_src"], "cfg": list(v["cfg"])}, detail={"case": c})
        elif v["status"] == "inconclusive":
            ctx.inconclusive += 1
        else:
            ctx.bump("neg_twin_failed")
    ctx.bump("negative_probes", len(items))
