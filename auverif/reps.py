"""Independent model of the arithmetic reps (ranges, promotion, common type) and exact factor helpers."""
from fractions import Fraction
from math import gcd

from hypothesis import strategies as st

INT_REPS = ["int8_t", "uint8_t", "int16_t", "uint16_t", "int32_t", "uint32_t", "int64_t", "uint64_t"]
FLOAT_REPS = ["float", "double", "long double"]
ALL_REPS = INT_REPS + FLOAT_REPS

BITS = {"int8_t": 8, "uint8_t": 8, "int16_t": 16, "uint16_t": 16, "int32_t": 32, "uint32_t": 32,
        "int64_t": 64, "uint64_t": 64}
# IEEE parameters: (mantissa digits, max exponent (2^emax > max), min normal exponent, denorm exponent)
FLT = {"float": (24, 128, -126, -149), "double": (53, 1024, -1022, -1074), "long double": (64, 16384, -16382, -16445)}


def is_int(r):
    return r in BITS


def is_signed(r):
    return r[0] != "u"


def rmin(r):
    return -(1 << (BITS[r] - 1)) if is_signed(r) else 0


def rmax(r):
    if is_int(r):
        return (1 << (BITS[r] - 1)) - 1 if is_signed(r) else (1 << BITS[r]) - 1
    d, e, _, _ = FLT[r]
    return (Fraction(2) ** e) - (Fraction(2) ** (e - d))


def fmin_denorm(r):
    return Fraction(2) ** FLT[r][3]


def promoted(r):
    """type of T*T"""
    if is_int(r) and BITS[r] < 32:
        return "int32_t"
    return r


RANK = {"float": 1, "double": 2, "long double": 3}


def common_type(a, b):
    """std::common_type_t for arithmetic a, b (usual arithmetic conversions on LP64)"""
    if a == b:
        return a
    if not is_int(a) or not is_int(b):
        if not is_int(a) and not is_int(b):
            return a if RANK[a] >= RANK[b] else b
        return a if not is_int(a) else b
    a, b = promoted(a), promoted(b)
    if a == b:
        return a
    if is_signed(a) == is_signed(b):
        return a if BITS[a] >= BITS[b] else b
    u, s = (a, b) if not is_signed(a) else (b, a)
    if BITS[u] >= BITS[s]:
        return u
    return s


SMALL_PRIMES = [2, 3, 5, 7, 11, 13, 17, 19, 23, 29, 31, 37, 41, 43, 47, 53, 59, 61, 67, 71, 73, 79, 83, 89, 97,
                101, 127, 251, 257, 509, 1009, 8191, 65521, 65537, 131071, 524287]
BIG_PRIMES = [2147483647, 2147483659, 4294967291, 4294967311, 2305843009213693951, 9223372036854775783,
              18446744073709551557, 1099511627791, 4611686018427388039]


def factorint(n):
    """prime factorisation by trial division + sympy for the rest (exact)"""
    assert n >= 1
    f = {}
    for p in SMALL_PRIMES + BIG_PRIMES:
        while n % p == 0:
            f[p] = f.get(p, 0) + 1
            n //= p
    if n > 1:
        import sympy
        for p, e in sympy.factorint(n).items():
            f[int(p)] = f.get(int(p), 0) + int(e)
    return f


def mag_expr(n, d=1):
    """C++ expression of type au::Magnitude<...> for n/d, prime-factorised (never mag<composite>())"""
    def side(x):
        parts = []
        for p, e in sorted(factorint(x).items()):
            base = "au::Magnitude<au::Prime<%dull>>{}" % p
            parts.append(base if e == 1 else "au::pow<%d>(%s)" % (e, base))
        return parts
    num, den = side(n), side(d)
    s = " * ".join(num) if num else "au::Magnitude<>{}"
    if den:
        s = "(%s) / (%s)" % (s, " * ".join(den))
    return "(%s)" % s


def conv_category(n, d):
    if d == 1:
        return 0
    if n == 1:
        return 1
    return 2


def conversion_compiles(rep, n, d):
    """does q.coerce_in(u) compile for integral rep with unit ratio n/d (reading of apply_magnitude)"""
    if n == 1 and d == 1:
        return True
    if d == 1:
        return n <= rmax(rep)
    if n == 1:
        return d <= rmax(rep)
    p = promoted(rep)
    return n <= rmax(p) and d <= rmax(p)


def implicit_ok(r1, r2, ratio):
    """C06 model: Quantity<U2,R2> implicitly constructible from Quantity<U1,R1>, ratio = U1/U2 (same dimension)"""
    if not is_int(r2):
        return True
    if is_int(r1) and ratio.denominator == 1 and ratio > 0 and 2147 * ratio.numerator <= rmax(r2) and 2147 <= rmax(r2):
        return True
    if ratio == 1 and is_int(r1):
        return True
    return False


def implicit_ok_same_rep(r, ratio):
    """unit-only .as(u)/.in(u) for rep r"""
    if not is_int(r):
        return True
    if ratio == 1:
        return True
    return ratio.denominator == 1 and 2147 <= rmax(r) and 2147 * ratio.numerator <= rmax(r)


# ---- strategies --------------------------------------------------------------------------------

@st.composite
def smooth_number(draw, limit):
    """random integer in [1, limit] built from known primes (so its factorisation is known), log-uniform-ish"""
    n = 1
    k = draw(st.integers(0, 6))
    for _ in range(k):
        big = draw(st.integers(0, 9)) == 0
        p = draw(st.sampled_from(BIG_PRIMES if big else SMALL_PRIMES))
        e = draw(st.integers(1, 4)) if p < 100 else 1
        if n * p ** e <= limit:
            n *= p ** e
    return n


@st.composite
def coprime_pair(draw, limit):
    n = draw(smooth_number(limit))
    d = draw(smooth_number(limit))
    g = gcd(n, d)
    return n // g, d // g
