"""libFuzzer campaigns (coverage-guided, semantic oracle inside the target).  Only crash-* artifacts are violations."""
import binascii
import glob
import os
import re

from . import core

FLAGS = ["-std=gnu++17", "-g", "-O1", "-fsanitize=fuzzer,address,undefined,float-cast-overflow", "-fno-sanitize-recover=undefined,float-cast-overflow"]


def build(target_src, exe):
    cmd = ["clang++"] + FLAGS + ["-I" + core.INC, target_src, "-o", exe]
    rc, out, err, secs, to = core.run_cmd(cmd, timeout=900)
    return rc == 0, err


def campaign(ctx, name, runs, max_len, jobs=None, seeds=()):
    """returns (executions, corpus_units, crashes[list of (path, bytes, stderr tail)]) ; builds fuzz/<name>.cc against the working tree"""
    src = os.path.join(core.VERIF, "fuzz", name + ".cc")
    d = os.path.dirname(ctx.path("fuzz/%s/x" % name))
    exe = os.path.join(d, name)
    ok, err = build(src, exe)
    if not ok:
        return None, err
    jobs = jobs or core.NCPU
    seed0 = ctx.seed if ctx.seed != 0 else 1

    def one(k):
        corp = os.path.join(d, "corpus%d" % k); art = os.path.join(d, "art%d" % k)
        os.makedirs(corp, exist_ok=True); os.makedirs(art, exist_ok=True)
        for j, s in enumerate(seeds):
            with open(os.path.join(corp, "seed%d" % j), "wb") as f:
                f.write(s)
        cmd = [exe, "-runs=%d" % runs, "-seed=%d" % (seed0 * 1000 + k + 1), "-max_len=%d" % max_len, "-artifact_prefix=" + art + "/", "-print_final_stats=1", "-timeout=60", corp]
        rc, out, err2, secs, to = core.run_cmd(cmd, timeout=3600 * 3)
        execs = 0
        m = re.search(r"stat::number_of_executed_units:\s*(\d+)", err2)
        if m:
            execs = int(m.group(1))
        crashes = []
        for f in sorted(glob.glob(os.path.join(art, "crash-*"))):
            crashes.append((f, open(f, "rb").read(), "\n".join(l for l in err2.splitlines() if "AUVFUZZ" in l or "runtime error" in l or "ERROR: " in l)[-600:]))
        return execs, len(os.listdir(corp)), crashes
    res = core.pmap(one, range(jobs))
    return (sum(r[0] for r in res), sum(r[1] for r in res), [c for r in res for c in r[2]]), ""


def replay_artifact(params, rc, out, err):
    """stand-alone replay: rebuild the target against the working tree and run it on the saved input"""
    import tempfile
    d = tempfile.mkdtemp(prefix="fuzzreplay", dir=os.path.join(core.VERIF, "build"))
    exe = os.path.join(d, params["target"])
    ok, e = build(os.path.join(core.VERIF, "fuzz", params["target"] + ".cc"), exe)
    if not ok:
        return None, "fuzz target does not build: " + e[-300:]
    inp = os.path.join(d, "input")
    open(inp, "wb").write(binascii.unhexlify(params["input_hex"]))
    rc2, o2, e2, secs, to = core.run_cmd([exe, inp], timeout=300)
    return rc2 != 0, "fuzz target on saved input: rc=%d %s" % (rc2, "\n".join(l for l in e2.splitlines() if "AUVFUZZ" in l or "runtime error" in l)[-300:])


def report(ctx, prop, name, result, what):
    (execs, units, crashes), _ = result
    ctx.count(execs)
    ctx.add_nontrivial_count(units)
    ctx.hist["fuzz_" + name] = {"executions": execs, "corpus_units_kept_for_new_coverage": units, "crash_artifacts": len(crashes)}
    for path, data, tail in crashes[:3]:
        ctx.fail("%s: libFuzzer target %s: %s (%s)" % (prop, name, what, tail.replace("\n", " | ")[:400]),
                 {"mode": "pyjudge", "no_build": True, "judge": "auverif.fuzzrun:replay_artifact", "src": "// see fuzz/%s.cc" % name, "cfg": ["clang++", "c++17"],
                  "params": {"target": name, "input_hex": binascii.hexlify(data).decode()}})
