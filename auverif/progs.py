"""Program-level judging helpers: positive batches (must compile, per-case isolation) and negative
probes (must fail to compile, with a positive twin that must compile)."""
import re

from . import core


def tu(prelude, bodies, main=True):
    """bodies: list of namespace-scope snippets, one per case; each in its own namespace and #line block"""
    out = [prelude]
    for i, b in enumerate(bodies):
        out.append("#line %d\nnamespace auv_case_%d {\n%s\n}" % (10000 * (i + 1), i, b))
    if main:
        out.append("#line 1\nint main() { return 0; }\n")
    return "\n".join(out)


class Verdict:
    __slots__ = ("ok", "cr", "src", "cfg", "inconclusive")

    def __init__(self, ok, cr, src, cfg, inconclusive=False):
        self.ok, self.cr, self.src, self.cfg, self.inconclusive = ok, cr, src, cfg, inconclusive


def judge_positive(ctx, items, group=8, tag="pos", flags=()):
    """items: list of (prelude, body, cfg). Cases sharing (prelude, cfg) are batched `group` per TU.
    Returns list of Verdict in input order; a case's verdict comes from its own stand-alone TU whenever
    its batch failed."""
    n = len(items)
    res = [None] * n
    groups = {}
    for idx, (pre, body, cfg) in enumerate(items):
        groups.setdefault((pre, cfg), []).append(idx)
    batches = []
    for (pre, cfg), idxs in groups.items():
        for k in range(0, len(idxs), group):
            batches.append((pre, cfg, idxs[k:k + group]))

    def comp_batch(b):
        pre, cfg, idxs = b
        src = tu(pre, [items[i][1] for i in idxs])
        p = ctx.write("%s/b_%s.cc" % (tag, core.sha(src + core.cfg_name(cfg))), src)
        return core.compile_one(cfg, p, syntax_only=True, flags=flags, timeout=900)
    crs = core.pmap(comp_batch, batches)
    singles = []
    for b, cr in zip(batches, crs):
        pre, cfg, idxs = b
        if cr.ok:
            for i in idxs:
                res[i] = Verdict(True, cr, tu(pre, [items[i][1]]), cfg)
        else:
            singles.extend(idxs)

    def comp_single(i):
        pre, body, cfg = items[i]
        src = tu(pre, [body])
        p = ctx.write("%s/s_%s.cc" % (tag, core.sha(src + core.cfg_name(cfg))), src)
        cr = core.compile_one(cfg, p, syntax_only=True, flags=flags, timeout=900)
        return i, cr, src
    for i, cr, src in core.pmap(comp_single, singles):
        cfg = items[i][2]
        if cr.ok:
            res[i] = Verdict(True, cr, src, cfg)
        elif cr.resource_limited:
            res[i] = Verdict(False, cr, src, cfg, inconclusive=True)
        else:
            if cr.harness_bug:
                raise RuntimeError("harness bug in generated TU (%s): %s\n---\n%s" % (core.cfg_name(cfg), cr.first_error(), src[-1500:]))
            res[i] = Verdict(False, cr, src, cfg)
    return res


def judge_negative(ctx, items, tag="neg", flags=()):
    """items: list of (prelude, bad_body, twin_body, cfg): bad must NOT compile, twin must compile.
    Returns list of dict(status=..., ...): status in 'ok' | 'accepted' (bad compiled: violation) |
    'twin_failed' (positive twin rejected) | 'inconclusive'."""
    def one(it):
        pre, bad, twin, cfg = it
        s_bad = tu(pre, [bad])
        s_twin = tu(pre, [twin])
        c_bad = core.compile_one(cfg, ctx.write("%s/n_%s.cc" % (tag, core.sha(s_bad + core.cfg_name(cfg))), s_bad), syntax_only=True, flags=flags, timeout=600)
        c_twin = core.compile_one(cfg, ctx.write("%s/t_%s.cc" % (tag, core.sha(s_twin + core.cfg_name(cfg))), s_twin), syntax_only=True, flags=flags, timeout=600)
        r = {"bad_src": s_bad, "twin_src": s_twin, "cfg": cfg, "bad": c_bad, "twin": c_twin}
        if c_bad.resource_limited or c_twin.resource_limited:
            r["status"] = "inconclusive"
        elif not c_twin.ok:
            if c_twin.harness_bug:
                raise RuntimeError("harness bug in twin (%s): %s\n---\n%s" % (core.cfg_name(cfg), c_twin.first_error(), s_twin[-1500:]))
            r["status"] = "twin_failed"
        elif c_bad.ok:
            r["status"] = "accepted"
        else:
            if re.search(r"No such file or directory|file not found", c_bad.err):
                raise RuntimeError("harness bug in negative probe (%s): %s\n---\n%s" % (core.cfg_name(cfg), c_bad.first_error(), s_bad[-1500:]))
            r["status"] = "ok"
        return r
    return core.pmap(one, items)


def is_documented_ordering_limitation(cr):
    return "Broken strict total ordering" in cr.err
