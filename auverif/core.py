"""Common machinery: compiler pool, run context, evidence, findings, violations, replay.

Every check module exposes  run(ctx)  and registers failures through ctx.fail(...).
"""
import concurrent.futures as cf
import hashlib
import json
import os
import re
import shutil
import subprocess
import sys
import time

VERIF = os.path.dirname(os.path.dirname(os.path.abspath(__file__)))
REPO = os.environ.get("AU_REPO", "/repo")
INC = os.path.join(REPO, "au", "code")
HARNESS = os.path.join(VERIF, "harness")
NCPU = int(os.environ.get("VERIF_JOBS", "16"))

CONFIGS = [("g++", "c++14"), ("g++", "c++17"), ("g++", "c++20"),
           ("clang++", "c++14"), ("clang++", "c++17"), ("clang++", "c++20")]


def cfg_name(cfg):
    return "%s/%s" % cfg


RESOURCE_PATTERNS = [
    r"constexpr evaluation operation count", r"constexpr loop iteration count",
    r"-fconstexpr-steps", r"-fconstexpr-ops-limit", r"-fconstexpr-loop-limit", r"-fconstexpr-depth",
    r"template instantiation depth", r"recursive template instantiation exceeded",
    r"out of memory", r"virtual memory exhausted", r"Killed", r"internal compiler error",
    r"cannot allocate", r"constexpr evaluation hit maximum step limit",
    r"constexpr evaluation exceeded maximum depth", r"-ftemplate-depth",
    r"bracket nesting level exceeded", r"fbracket-depth",
]
RESOURCE_RE = re.compile("|".join(RESOURCE_PATTERNS))
HARNESS_BUG_RE = re.compile(
    r"was not declared in this scope|use of undeclared identifier|expected .* before|expected '[^']*'$|"
    r"No such file or directory|file not found|expected unqualified-id|expected primary-expression|"
    r"expected expression|stray '|unknown type name|does not name a type|no member named 'auv|AUV_HARNESS_BUG")


class CompileResult:
    __slots__ = ("ok", "rc", "err", "cmd", "secs", "timeout")

    def __init__(self, ok, rc, err, cmd, secs, timeout=False):
        self.ok, self.rc, self.err, self.cmd, self.secs, self.timeout = ok, rc, err, cmd, secs, timeout

    @property
    def resource_limited(self):
        return self.timeout or self.rc < 0 or bool(RESOURCE_RE.search(self.err))

    @property
    def harness_bug(self):
        # judged on the FIRST error only (follow-up diagnostics and notes of a genuine library rejection may mention anything),
        # and never for the documented 'Broken strict total ordering' limitation or a library static_assert
        if "Broken strict total ordering" in self.err:
            return False
        first = self.first_error()
        if "static assertion failed" in first or "static_assert failed" in first:
            return False
        return bool(HARNESS_BUG_RE.search(first))

    def first_error(self):
        for line in self.err.splitlines():
            if "undefined reference" in line or "multiple definition" in line:     # link errors: the symbol, not "ld returned 1"
                return line.strip()[:400]
        for line in self.err.splitlines():
            if "error" in line:
                return line.strip()[:400]
        return self.err.strip()[:400]

    def error_lines(self):
        """source line numbers (of the main file) mentioned anywhere in diagnostics"""
        return self.err


def compile_cmd(cfg, src, out=None, syntax_only=False, flags=(), defines=()):
    cxx, std = cfg
    cmd = [cxx, "-std=" + std, "-I" + INC, "-I" + HARNESS]
    if cxx == "g++":
        cmd += ["-fmax-errors=8", "-fdiagnostics-color=never", "-fno-diagnostics-show-caret"]
    else:
        cmd += ["-ferror-limit=8", "-fno-color-diagnostics", "-fno-caret-diagnostics"]
    cmd += list(flags)
    cmd += ["-D" + d for d in defines]
    if syntax_only:
        cmd += ["-fsyntax-only", src]
    else:
        cmd += [src, "-o", out]
    return cmd


def run_cmd(cmd, timeout=600, env=None, cwd=None, stdin=None):
    t0 = time.time()
    try:
        p = subprocess.run(cmd, stdout=subprocess.PIPE, stderr=subprocess.PIPE, timeout=timeout,
                           env=env, cwd=cwd, input=stdin)
        return p.returncode, p.stdout.decode("utf-8", "replace"), p.stderr.decode("utf-8", "replace"), time.time() - t0, False
    except subprocess.TimeoutExpired as e:
        out = (e.stdout or b"").decode("utf-8", "replace")
        err = (e.stderr or b"").decode("utf-8", "replace")
        return -9, out, err, time.time() - t0, True


def compile_one(cfg, src, out=None, syntax_only=False, flags=(), defines=(), timeout=900):
    cmd = compile_cmd(cfg, src, out, syntax_only, flags, defines)
    rc, _o, err, secs, to = run_cmd(cmd, timeout=timeout)
    return CompileResult(rc == 0, rc, err, cmd, secs, to)


_pool = None


def pool():
    global _pool
    if _pool is None:
        _pool = cf.ThreadPoolExecutor(max_workers=NCPU)
    return _pool


def pmap(fn, items):
    return list(pool().map(fn, items))


def sha(s):
    return hashlib.sha256(s.encode() if isinstance(s, str) else s).hexdigest()[:16]


def load_findings():
    """known_findings.txt -> {'known': [ {property,id,match,text} ], 'fixed': [...]}"""
    res = {"known": [], "fixed": []}
    path = os.path.join(VERIF, "known_findings.txt")
    if not os.path.exists(path):
        return res
    for line in open(path):
        line = line.strip()
        if not line or line.startswith("#"):
            continue
        kind, _, rest = line.partition(":")
        kind = kind.strip()
        if kind not in res:
            continue
        head, _, text = rest.partition("::")
        d = {"text": text.strip()}
        for tok in head.split():
            if "=" in tok:
                k, v = tok.split("=", 1)
                d[k] = v
            else:
                d.setdefault("commit", tok)
        res[kind].append(d)
    return res


class Ctx:
    def __init__(self, prop, tier, seed):
        self.prop = prop
        self.tier = tier
        self.seed = seed
        self.t0 = time.time()
        self.build = os.path.join(VERIF, "build", prop)
        self.replay_dir = os.path.join(self.build, "replay")
        self.failures = []      # list of dicts (already isolated cases)
        self.known_hits = []    # (finding id, text)
        self.cov = {"evaluations": 0, "distinct_nontrivial": 0, "rule": "", "samples": []}
        self.assumptions = []
        self._nt = set()
        self.hist = {}
        self.inconclusive = 0
        self.findings = load_findings()
        self.known = {f["id"]: f for f in self.findings["known"] if f.get("property") == prop}
        self.excluded = {}

    # ---- bookkeeping
    def quick(self):
        return self.tier == "quick"

    def path(self, *a):
        p = os.path.join(self.build, *a)
        os.makedirs(os.path.dirname(p), exist_ok=True)
        return p

    def write(self, rel, text):
        p = self.path(rel)
        with open(p, "w") as f:
            f.write(text)
        return p

    def count(self, n=1):
        self.cov["evaluations"] += n

    def nontrivial(self, key):
        """register a distinct non-trivial case key (hashable / json-able)"""
        if not isinstance(key, (str, bytes)):
            key = json.dumps(key, sort_keys=True, default=str)
        self._nt.add(sha(key))

    def add_nontrivial_count(self, n):
        """for value-level distinct counts measured by the C++ harness"""
        self.cov["distinct_nontrivial_values"] = self.cov.get("distinct_nontrivial_values", 0) + n

    def sample(self, s, cap=10):
        if len(self.cov["samples"]) < cap:
            self.cov["samples"].append(s)

    def bump(self, name, n=1):
        self.hist[name] = self.hist.get(name, 0) + n

    def exclude(self, fid, n=1):
        self.excluded[fid] = self.excluded.get(fid, 0) + n

    def is_known(self, fid):
        return fid in self.known

    def known_hit(self, fid, what):
        self.known_hits.append((fid, what))

    def fail(self, what, replay, detail=None):
        """replay: dict describing a stand-alone reproduction (see replay_case)"""
        self.failures.append({"what": what, "replay": replay, "detail": detail})

    def elapsed(self):
        return time.time() - self.t0


# ---------------------------------------------------------------------------------------------
# Replay: a replay file is JSON {property, what, kind, src, cfg, flags, mode, expect, args, env}
#   mode 'syntax'  : compile -fsyntax-only;   expect 'ok' | 'fail'
#   mode 'run'     : compile+run;             expect 'exit0'   (program must exit 0)
#   mode 'build'   : compile+link, not run;   expect 'ok' | 'fail'
# The violation reproduces iff the observed outcome differs from 'expect'.

def replay_case(r, workdir):
    os.makedirs(workdir, exist_ok=True)
    src = os.path.join(workdir, "replay_%s.cc" % sha(r["src"]))
    with open(src, "w") as f:
        f.write(r["src"])
    cfg = tuple(r.get("cfg", CONFIGS[0]))
    flags = r.get("flags", [])
    if r["mode"] == "syntax":
        cr = compile_one(cfg, src, syntax_only=True, flags=flags, defines=r.get("defines", []))
        if cr.resource_limited:
            return None, "inconclusive (resource limit)"
        got = "ok" if cr.ok else "fail"
        return got != r["expect"], "compile %s (expected %s): %s" % (got, r["expect"], cr.first_error())
    if r["mode"] == "build":      # compile AND link (a missing definition is a link error), do not run
        cr = compile_one(cfg, src, src[:-3] + ".exe", flags=flags, defines=r.get("defines", []))
        if cr.resource_limited:
            return None, "inconclusive (resource limit)"
        got = "ok" if cr.ok else "fail"
        return got != r["expect"], "build %s (expected %s): %s" % (got, r["expect"], cr.first_error())
    if r["mode"] == "pyjudge" and r.get("no_build"):
        import importlib
        mod, fn = r["judge"].split(":")
        return getattr(importlib.import_module(mod), fn)(r["params"], 0, "", "")
    exe = src[:-3] + ".exe"
    cr = compile_one(cfg, src, exe, flags=flags, defines=r.get("defines", []))
    if not cr.ok:
        if cr.resource_limited:
            return None, "inconclusive (resource limit)"
        if r.get("expect") == "compile_fail":
            return False, "compile failed as expected"
        return True, "does not compile: " + cr.first_error()
    if r.get("expect") == "compile_fail":
        return True, "compiles but should not"
    env = dict(os.environ)
    env.update(r.get("env", {}))
    rc, out, err, _s, to = run_cmd([exe] + [str(a) for a in r.get("args", [])], timeout=r.get("timeout", 600), env=env)
    if to:
        if r.get("timeout_is_failure"):
            return True, "does not terminate within %d s (normally microseconds)" % r.get("timeout", 600)
        return None, "inconclusive (timeout)"
    if r["mode"] == "pyjudge":
        import importlib
        mod, fn = r["judge"].split(":")
        bad, msg = getattr(importlib.import_module(mod), fn)(r["params"], rc, out, err)
        return bad, msg
    if "stdout" in r:
        bad = (out != r["stdout"])
        return bad, "stdout %r expected %r" % (out[:300], r["stdout"][:300])
    return rc != 0, "exit %d: %s" % (rc, (out + err).strip()[-600:])


def write_evidence(ctx, violations):
    cov = dict(ctx.cov)
    cov["distinct_nontrivial"] = len(ctx._nt) + cov.get("distinct_nontrivial_values", 0)
    if ctx.hist:
        cov["class_histogram"] = ctx.hist
    cov["inconclusive"] = ctx.inconclusive
    if ctx.excluded:
        cov["excluded_known_findings"] = ctx.excluded
    cov["known_findings_reproduced"] = [k for k, _ in ctx.known_hits]
    ev = {"property_id": ctx.prop, "tier": ctx.tier, "seed": ctx.seed, "level": "exploration",
          "coverage": cov, "assumptions": ctx.assumptions, "wall_s": round(ctx.elapsed(), 2),
          "violations": violations}
    evdir = os.environ.get("AUV_EVIDENCE_DIR", os.path.join(VERIF, "evidence"))   # scratch runs against a patched copy must not overwrite the evidence
    os.makedirs(evdir, exist_ok=True)
    p = os.path.join(evdir, ctx.prop + ".json")
    if not cov["samples"]:
        cov["samples"] = [{"note": "no case completed in this run"}]
    try:
        import jsonschema
        schema = json.load(open("/root/.vp/EVIDENCE.schema.json"))
        jsonschema.validate(ev, schema)
    except ImportError:
        pass
    except FileNotFoundError:
        pass
    except Exception as e:   # thin coverage (e.g. the run stopped at an early violation) must not hide the verdict
        print("note: evidence does not validate against the schema: %s" % str(e).splitlines()[0])
    with open(p + ".tmp", "w") as f:
        json.dump(ev, f, indent=1, default=str)
    os.replace(p + ".tmp", p)
    return ev


def finish(ctx):
    """confirm failures by stand-alone replay (3x), print lines, write evidence, return exit code"""
    confirmed = []
    seen = set()
    for f in ctx.failures:
        key = sha(json.dumps(f["replay"], sort_keys=True, default=str))
        if key in seen:
            continue
        seen.add(key)
        if len(confirmed) >= 5:
            break
        oks = []
        for i in range(3):
            bad, msg = replay_case(f["replay"], os.path.join(ctx.build, "confirm"))
            oks.append(bad)
            if bad is not True:
                break
        if all(o is True for o in oks) and len(oks) == 3:
            os.makedirs(ctx.replay_dir, exist_ok=True)
            rp = os.path.join(ctx.replay_dir, key + ".json")
            rec = dict(f["replay"])
            rec.update({"property": ctx.prop, "what": f["what"], "detail": f["detail"], "observed": msg})
            with open(rp, "w") as fh:
                json.dump(rec, fh, indent=1, default=str)
            with open(rp[:-5] + ".cc", "w") as fh:
                fh.write(f["replay"]["src"])
            confirmed.append((f, rp, msg))
        else:
            ctx.inconclusive += 1
            print("note: unconfirmed failure (not reported): %s :: %s" % (f["what"], msg))
    for fid, what in sorted(set(ctx.known_hits)):
        print("KNOWN-FINDING: property=%s %s" % (ctx.prop, what))
    write_evidence(ctx, len(confirmed))
    for f, rp, msg in confirmed:
        print("  failure: %s\n    %s" % (f["what"], msg))
        print("VIOLATION property=%s replay=%s" % (ctx.prop, os.path.relpath(rp, VERIF)))
    sys.stdout.flush()
    return 1 if confirmed else 0
