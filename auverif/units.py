"""Unit expression trees: Hypothesis strategies, model evaluation, C++ rendering in several spellings.

Tree (JSON-able):
  {"k":"leaf","n":"Meters"} | {"k":"pre","p":"Kilo","n":"Meters"} | {"k":"named","id":0}
  {"k":"mul","a":T,"b":T} | {"k":"div","a":T,"b":T} | {"k":"pow","a":T,"n":int,"d":int}
  {"k":"scale","a":T,"num":int,"den":int,"pi":[n,d]}
A case that uses named units carries  defs = [{"id":k,"tree":T,"label":bool}]  (defs reference only leaves).
"""
from fractions import Fraction as F

from hypothesis import strategies as st

from . import model
from .model import PREFIXES, SPELL, TABLE, U

NO_TWIN_LEAVES = [n for n in model.UNIT_NAMES if n != "Becquerel"]  # Hertz/Becquerel are twins
QUANTITY_LEAVES = [n for n in NO_TWIN_LEAVES]
EXPS = [(1, 1), (-1, 1), (2, 1), (-2, 1), (3, 1), (-3, 1), (4, 1), (1, 2), (1, 3), (2, 3), (3, 2), (-1, 2)]
# trees also use composite root denominators and NON-REDUCED pairs: (2, 4) renders as pow<2>(root<4>(x)), an integer power applied to a fractional exponent that
# cancels only partially (the model evaluates the exact fraction 2/4 = 1/2)
TREE_EXPS = EXPS + [(1, 4), (1, 6), (2, 4), (3, 6), (2, 6), (4, 6), (-2, 4), (6, 4)]
SCALE_NUMS = [2, 3, 5, 7, 10, 12, 60, 100, 127, 254, 1000, 1024, 3600, 5280, 8191, 65537, 1000000, 2147483647]


def leaf():
    return st.builds(lambda n: {"k": "leaf", "n": n}, st.sampled_from(NO_TWIN_LEAVES))


def prefixed():
    return st.builds(lambda p, n: {"k": "pre", "p": p, "n": n}, st.sampled_from(sorted(PREFIXES)), st.sampled_from(NO_TWIN_LEAVES))


def scale_factor():
    return st.tuples(st.sampled_from(SCALE_NUMS), st.sampled_from([1, 1, 1, 3, 5, 9, 100, 1000, 7]),
                     st.sampled_from([(0, 1)] * 6 + [(1, 1), (-1, 1), (2, 1), (1, 2)]))


def tree(max_leaves=6, named_ids=(), allow_scale=True, allow_frac=True):
    base = [leaf(), leaf(), prefixed()]
    if named_ids:
        base.append(st.builds(lambda i: {"k": "named", "id": i}, st.sampled_from(list(named_ids))))
    exps = TREE_EXPS if allow_frac else [e for e in EXPS if e[1] == 1]

    def extend(children):
        opts = [
            st.builds(lambda a, b: {"k": "mul", "a": a, "b": b}, children, children),
            st.builds(lambda a, b: {"k": "div", "a": a, "b": b}, children, children),
            st.builds(lambda a, e: {"k": "pow", "a": a, "n": e[0], "d": e[1]}, children, st.sampled_from(exps)),
        ]
        if allow_scale:
            opts.append(st.builds(lambda a, s: {"k": "scale", "a": a, "num": s[0], "den": s[1], "pi": list(s[2])}, children, scale_factor()))
        return st.one_of(opts)
    return st.recursive(st.one_of(base), extend, max_leaves=max_leaves)


def opaque_power():
    """pow<k>( scale( pow<n/d>(X) ) ): an integer power of a unit that is OPAQUE to the unit algebra (a scaled unit) and whose own dimension has fractional exponents"""
    return st.builds(lambda x, e1, sf, k: {"k": "pow", "a": {"k": "scale", "a": {"k": "pow", "a": x, "n": e1[0], "d": e1[1]}, "num": sf[0], "den": sf[1], "pi": [0, 1]}, "n": k, "d": 1},
                     st.one_of(leaf(), prefixed()), st.sampled_from([(1, 2), (1, 3), (3, 2), (2, 3), (1, 4), (-1, 2)]),
                     st.tuples(st.sampled_from(SCALE_NUMS), st.sampled_from([1, 1, 3, 7, 1000])), st.sampled_from([2, 3, -2, 4, -1, 6]))


# ---- model evaluation ------------------------------------------------------------------------------

def evaluate(t, defs=None):
    k = t["k"]
    if k == "leaf":
        u = TABLE[t["n"]]
        return U(u.dim, u.mag, u.origin)
    if k == "pre":
        u = TABLE[t["n"]]
        return U(u.dim, model.mmul(u.mag, model.prefix_mag(t["p"])), u.origin)  # prefixed unit inherits origin member
    if k == "named":
        d = [x for x in defs if x["id"] == t["id"]][0]
        return evaluate(d["tree"], defs)
    if k == "mul":
        return strip(evaluate(t["a"], defs)) * strip(evaluate(t["b"], defs))
    if k == "div":
        return strip(evaluate(t["a"], defs)) / strip(evaluate(t["b"], defs))
    if k == "pow":
        return strip(evaluate(t["a"], defs)).pow(F(t["n"], t["d"]))
    if k == "scale":
        u = evaluate(t["a"], defs)
        m = model.mag_of(t["num"], t["den"])
        if t["pi"][0]:
            m = model.mmul(m, {"pi": F(t["pi"][0], t["pi"][1])})
        return U(u.dim, model.mmul(u.mag, m), u.origin)
    raise ValueError(k)


def strip(u):
    return U(u.dim, u.mag)


def leaves(t):
    if t["k"] in ("leaf", "pre", "named"):
        yield t
    else:
        for c in ("a", "b"):
            if c in t:
                yield from leaves(t[c])


def size(t):
    return 1 + sum(size(t[c]) for c in ("a", "b") if c in t and isinstance(t.get(c), dict))


def leaf_spelling(t):
    if t["k"] == "leaf":
        return t["n"]
    if t["k"] == "pre":
        return "%s<%s>" % (t["p"], t["n"])
    return "G%d" % t["id"]


def fix_twins(trees, defs=None):
    """Documented limitation: at most one named unit type per (dim, mag, origin) class in a case.
    Offending leaves are replaced (construction, not rejection). Returns number of replacements."""
    seen = {}
    n = 0
    for t in trees:
        for lf in leaves(t):
            key = evaluate(lf, defs).pkey()
            sp = leaf_spelling(lf)
            if key in seen and seen[key][0] != sp:
                lf.clear()
                lf.update(seen[key][1])
                n += 1
            else:
                seen.setdefault(key, (sp, dict(lf)))
    return n


def total_exponent_ok(t, defs=None, lim=12):
    u = evaluate(t, defs)
    vals = list(u.dim.values()) + list(u.mag.values())
    return all(abs(v) <= lim * 3 and v.denominator <= 12 for v in vals)


# ---- rendering -------------------------------------------------------------------------------------

def mag_cxx(num, den, pi=(0, 1)):
    from .reps import mag_expr
    s = mag_expr(num, den)
    if pi[0]:
        pe = "au::Magnitude<au::Pi>{}"
        if pi[1] != 1:
            pe = "au::root<%d>(%s)" % (pi[1], pe)
        if pi[0] != 1:
            pe = "au::pow<%d>(%s)" % (pi[0], pe)
        s = "(%s * %s)" % (s, pe)
    return s


def render_unit(t):
    """unit-instance spelling (always available)"""
    k = t["k"]
    if k == "leaf":
        return "au::%s{}" % t["n"]
    if k == "pre":
        return "au::%s<au::%s>{}" % (t["p"], t["n"])
    if k == "named":
        return "G%d{}" % t["id"]
    if k == "mul":
        return "(%s * %s)" % (render_unit(t["a"]), render_unit(t["b"]))
    if k == "div":
        return "(%s / %s)" % (render_unit(t["a"]), render_unit(t["b"]))
    if k == "pow":
        return _pow("", render_unit(t["a"]), t["n"], t["d"])
    if k == "scale":
        return "(%s * %s)" % (render_unit(t["a"]), mag_cxx(t["num"], t["den"], tuple(t["pi"])))
    raise ValueError(k)


def _pow(ns, inner, n, d):
    if d == 1:
        return "%spow<%d>(%s)" % (ns, n, inner)
    if n == 1:
        return "%sroot<%d>(%s)" % (ns, d, inner)
    return "%spow<%d>(%sroot<%d>(%s))" % (ns, n, ns, d, inner)


def render_type(t):
    return "decltype(%s)" % render_unit(t)


def can_render(t, mode):
    k = t["k"]
    if mode == "unit":
        return True
    if k == "named":
        return mode in ("constant",)
    if k == "leaf":
        if mode == "singular":
            return SPELL[t["n"]][2] is not None
        if mode == "symbol":
            return SPELL[t["n"]][3] is not None
        return True
    if k == "pre":
        if mode == "singular":
            return SPELL[t["n"]][2] is not None
        if mode == "symbol":
            return SPELL[t["n"]][3] is not None
        return mode in ("maker",)
    if k in ("mul", "div"):
        if mode == "singular" and k == "div":
            return False
        return can_render(t["a"], mode) and can_render(t["b"], mode)
    if k == "pow":
        if mode == "singular" and t["d"] != 1:
            return False
        return can_render(t["a"], mode)
    if k == "scale":
        if mode == "singular":
            return False
        return can_render(t["a"], mode)
    return False


def render(t, mode):
    """maker / singular / symbol / constant spellings (check can_render first)"""
    if mode == "unit":
        return render_unit(t)
    k = t["k"]
    if k == "leaf":
        sp = SPELL[t["n"]]
        return {"maker": "au::" + sp[1], "singular": "au::%s" % sp[2], "symbol": "au::symbols::%s" % sp[3],
                "constant": "au::make_constant(au::%s{})" % t["n"]}[mode]
    if k == "pre":
        sp = SPELL[t["n"]]
        inner = {"maker": "au::" + sp[1], "singular": "au::%s" % sp[2], "symbol": "au::symbols::%s" % sp[3]}[mode]
        return "au::%s(%s)" % (PREFIXES[t["p"]][0], inner)
    if k == "named":
        return "au::make_constant(G%d{})" % t["id"]
    if k == "mul":
        return "(%s * %s)" % (render(t["a"], mode), render(t["b"], mode))
    if k == "div":
        return "(%s / %s)" % (render(t["a"], mode), render(t["b"], mode))
    if k == "pow":
        return _pow("", render(t["a"], mode), t["n"], t["d"])
    if k == "scale":
        return "(%s * %s)" % (render(t["a"], mode), mag_cxx(t["num"], t["den"], tuple(t["pi"])))
    raise ValueError(k)


def assoc(expr):
    return "decltype(au::associated_unit(%s))" % expr


USING = "using au::pow; using au::root;  // wrapper pow/root are hidden friends: unqualified call + ADL, as in user code\n"


def render_defs(defs, with_makers=False):
    out = [USING]
    for d in defs or []:
        out.append("struct G%d : %s {%s};" % (d["id"], render_type(d["tree"]),
                                              (' static constexpr const char label[] = "G%d";' % d["id"]) if d.get("label") else ""))
        if d.get("label"):
            out.append("constexpr const char G%d::label[];" % d["id"])
    return "\n".join(out)


def headers_for(trees, defs=None):
    names = set()
    for t in list(trees) + [d["tree"] for d in (defs or [])]:
        for lf in leaves(t):
            if "n" in lf:
                names.add(lf["n"])
    return '#include "au/au.hh"\n' + model.includes(names)
