#!/usr/bin/env python3
"""Driver:  python3-vt run.py Cxx --tier quick|thorough      (cwd /verif)
            python3-vt run.py Cxx --replay build/Cxx/replay/<hash>.json
Exit 0: property held on everything explored (KNOWN-FINDING lines possible); exit 1: VIOLATION line(s);
exit 2: the check itself is broken (harness bug) -- never used to signal a violation."""
import argparse
import importlib
import json
import os
import shutil
import sys
import traceback

sys.path.insert(0, os.path.dirname(os.path.abspath(__file__)))
from auverif import core  # noqa: E402

REGISTRY = {
    "C03": ("auverif.props.c03", "run_c03"),
    "C04": ("auverif.props.c03", "run_c04"),
    "C12": ("auverif.props.c12", "run"),
    "C01": ("auverif.props.c01", "run"),
    "C02": ("auverif.props.c02", "run"),
    "C13": ("auverif.props.c13", "run"),
    "C08": ("auverif.props.c08", "run"),
    "C05": ("auverif.props.c05", "run"),
    "C06": ("auverif.props.c06", "run"),
    "C07": ("auverif.props.c07", "run"),
    "C10": ("auverif.props.c10", "run"),
    "C09": ("auverif.props.c09", "run"),
    "C11": ("auverif.props.c11", "run"),
    "C19": ("auverif.props.c19", "run"),
    "C14": ("auverif.props.c14", "run"),
    "C15": ("auverif.props.c15", "run"),
    "C16": ("auverif.props.c16", "run"),
    "C17": ("auverif.props.c17", "run"),
    "C18": ("auverif.props.c18", "run"),
    "C20": ("auverif.props.c20", "run"),
}


def main():
    ap = argparse.ArgumentParser()
    ap.add_argument("prop", nargs="?", default="")
    ap.add_argument("--setup", action="store_true")
    ap.add_argument("--tier", default=os.environ.get("VERIF_TIER", "quick"), choices=["quick", "thorough"])
    ap.add_argument("--replay")
    ap.add_argument("--keep", action="store_true")
    a = ap.parse_args()
    if a.setup:
        os.makedirs(os.path.join(core.VERIF, "build"), exist_ok=True)
        os.makedirs(os.path.join(core.VERIF, "evidence"), exist_ok=True)
        print("setup ok (nothing to prebuild: every check rebuilds from /repo's working tree)")
        return 0
    seed = int(os.environ.get("VERIF_SEED", "1") or "1")
    if seed == 0:
        seed = 1
    prop = a.prop.upper()
    if a.replay:
        r = json.load(open(a.replay))
        bad, msg = core.replay_case(r, os.path.join(core.VERIF, "build", prop, "replay_run"))
        print("replay:", msg)
        if bad:
            print("VIOLATION property=%s replay=%s" % (prop, a.replay))
            return 1
        return 0
    if prop not in REGISTRY:
        print("unknown property", prop)
        return 2
    ctx = core.Ctx(prop, a.tier, seed)
    if os.path.isdir(ctx.build):
        shutil.rmtree(ctx.build, ignore_errors=True)
    os.makedirs(ctx.build, exist_ok=True)
    mod, fn = REGISTRY[prop]
    try:
        getattr(importlib.import_module(mod), fn)(ctx)
    except Exception:
        traceback.print_exc()
        print("BROKEN-CHECK property=%s (harness error, not a violation)" % prop)
        return 2
    rc = core.finish(ctx)
    print("%s %s tier=%s seed=%d evaluations=%d distinct_nontrivial=%d inconclusive=%d wall=%.1fs" % (
        prop, "VIOLATED" if rc else "ok", a.tier, seed, ctx.cov["evaluations"],
        len(ctx._nt) + ctx.cov.get("distinct_nontrivial_values", 0), ctx.inconclusive, ctx.elapsed()))
    return rc


if __name__ == "__main__":
    sys.exit(main())
